//! Shared helpers: JSON access, byte/scalar conversion, panic capture, event output.
use serde_json::{json, Map, Value};
use std::io::Write;
use std::panic::{catch_unwind, AssertUnwindSafe};

pub struct Out {
    w: std::io::BufWriter<std::fs::File>,
    pub n: u64,
}

impl Out {
    pub fn create(path: &str) -> Self {
        Out {
            w: std::io::BufWriter::with_capacity(1 << 20, std::fs::File::create(path).expect("create output")),
            n: 0,
        }
    }
    pub fn emit(&mut self, v: Value) {
        serde_json::to_writer(&mut self.w, &v).unwrap();
        self.w.write_all(b"\n").unwrap();
        self.n += 1;
    }
    pub fn finish(mut self) {
        self.w.flush().unwrap();
    }
}

/// Run f, returning Err(()) if it panicked.  Panics in the crate under test are data.
pub fn guarded<T>(f: impl FnOnce() -> T) -> Result<T, ()> {
    catch_unwind(AssertUnwindSafe(f)).map_err(|_| ())
}

pub fn bytes_of(v: &Value) -> Vec<u8> {
    match v {
        Value::Array(a) => a.iter().map(|x| x.as_u64().expect("byte") as u8).collect(),
        Value::String(s) => s.as_bytes().to_vec(),
        Value::Number(n) => n.as_u64().unwrap().to_le_bytes().to_vec(),
        _ => panic!("bytes_of: {v}"),
    }
}

pub fn jbytes(b: &[u8]) -> Value {
    Value::Array(b.iter().map(|x| json!(*x)).collect())
}

/// Scalars arrive either as JSON numbers or as little-endian byte arrays.
pub fn u64_of(v: &Value) -> u64 {
    match v {
        Value::Number(n) => n.as_u64().expect("u64"),
        Value::Array(a) => {
            let mut r: u64 = 0;
            for (i, x) in a.iter().enumerate() {
                let b = x.as_u64().expect("byte");
                if i < 8 {
                    r |= b << (8 * i);
                } else {
                    assert_eq!(b, 0);
                }
            }
            r
        }
        Value::Bool(b) => *b as u64,
        _ => panic!("u64_of: {v}"),
    }
}
pub fn u32_of(v: &Value) -> u32 {
    let x = u64_of(v);
    assert!(x <= u32::MAX as u64, "u32_of {x}");
    x as u32
}
pub fn u16_of(v: &Value) -> u16 {
    let x = u64_of(v);
    assert!(x <= u16::MAX as u64, "u16_of {x}");
    x as u16
}
pub fn u8_of(v: &Value) -> u8 {
    let x = u64_of(v);
    assert!(x <= u8::MAX as u64, "u8_of {x}");
    x as u8
}
pub fn bool_of(v: &Value) -> bool {
    match v {
        Value::Bool(b) => *b,
        Value::Number(n) => n.as_u64().unwrap() != 0,
        _ => panic!("bool_of: {v}"),
    }
}
pub fn str_of(v: &Value) -> &str {
    v.as_str().unwrap_or_else(|| panic!("str_of: {v}"))
}
pub fn arr_n<const N: usize>(v: &Value) -> [u8; N] {
    let b = bytes_of(v);
    assert_eq!(b.len(), N, "arr_n");
    let mut r = [0u8; N];
    r.copy_from_slice(&b);
    r
}
pub fn get<'a>(v: &'a Value, k: &str) -> &'a Value {
    v.get(k).unwrap_or_else(|| panic!("missing key {k} in {v}"))
}
pub fn has(v: &Value, k: &str) -> bool {
    v.get(k).is_some()
}
pub fn list<'a>(v: &'a Value, k: &str) -> &'a [Value] {
    match v.get(k) {
        Some(Value::Array(a)) => a.as_slice(),
        None => &[],
        Some(x) => panic!("list {k}: {x}"),
    }
}

pub fn le(x: u64, w: usize) -> Value {
    jbytes(&x.to_le_bytes()[..w])
}

pub fn obj(pairs: Vec<(&str, Value)>) -> Value {
    let mut m = Map::new();
    for (k, v) in pairs {
        m.insert(k.to_string(), v);
    }
    Value::Object(m)
}

/// Merge two JSON objects (b overrides a).
pub fn merge(a: Value, b: Value) -> Value {
    let mut m = match a {
        Value::Object(m) => m,
        _ => panic!("merge"),
    };
    if let Value::Object(bm) = b {
        for (k, v) in bm {
            m.insert(k, v);
        }
    }
    Value::Object(m)
}

/// Generic, ACPI-agnostic observation functions for outputs too large to ship verbatim.
pub fn sum8(b: &[u8]) -> u8 {
    b.iter().fold(0u8, |a, x| a.wrapping_add(*x))
}


/// A sink that implements nothing but `byte()`: wide pushes reach it through the trait's default methods.
pub struct ByteOnly(pub Vec<u8>);
impl acpi_tables::AmlSink for ByteOnly {
    fn byte(&mut self, b: u8) {
        self.0.push(b)
    }
}

/// Serialise into a vector; every third call goes through a byte-only sink instead (the properties speak of "the bytes
/// delivered by serialisation", whatever the sink).
pub fn ser(a: &dyn acpi_tables::Aml) -> Vec<u8> {
    use std::sync::atomic::{AtomicUsize, Ordering};
    static N: AtomicUsize = AtomicUsize::new(0);
    let n = N.fetch_add(1, Ordering::Relaxed);
    if n % 3 == 2 {
        let mut s = ByteOnly(Vec::new());
        a.to_aml_bytes(&mut s);
        s.0
    } else if n % 3 == 1 {
        // a vector that already holds data (1..=13 bytes): what is appended must not depend on what is there
        let pre: Vec<u8> = (0..(1 + n % 13)).map(|i| 0xC0 ^ i as u8).collect();
        let mut v = pre.clone();
        a.to_aml_bytes(&mut v);
        if v.len() >= pre.len() && v[..pre.len()] == pre[..] {
            v.split_off(pre.len())
        } else {
            v // the bytes already in the sink were touched: hand back everything, the judge will not find its image
        }
    } else {
        let mut v = Vec::new();
        a.to_aml_bytes(&mut v);
        v
    }
}
