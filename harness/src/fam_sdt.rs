//! Family "sdt" (C13): drive acpi_tables::sdt::Sdt.
use crate::util::*;
use acpi_tables::{sdt::Sdt, Aml, AmlSink};
use serde_json::{json, Value};

fn observe(s: &Sdt, with_ser: bool) -> Value {
    let mut o = json!({"slice": jbytes(s.as_slice()), "len": s.len() as u64, "is_empty": s.is_empty()});
    if with_ser {
        o["ser"] = jbytes(&ser(s));      // the table as an Aml object, into alternating kinds of sink
    }
    o
}

fn usize_off(op: &Value) -> usize {
    if has(op, "off_huge") {
        // offsets beyond any table: usize::MAX - k
        usize::MAX - u64_of(get(op, "off_huge")) as usize
    } else {
        u64_of(get(op, "off")) as usize
    }
}

/// {"fam":"sdt","big":[{"via":"append_slice"|"sink_vec","n":N,"b":B},..]}: a table grown by very long uniform slices;
/// the contents are not logged, only generic observations of them after every operation (length, byte sum, header).
fn exec_big(run: u64, prog: &Value, out: &mut Out) {
    let mut sdt = Sdt::new(*b"BIG_", 36, 1, [1, 2, 3, 4, 5, 6], [11, 12, 13, 14, 15, 16, 17, 18], 7);
    let mut total: u64 = 36;
    for op in list(prog, "big") {
        let n = u64_of(get(op, "n")) as usize;
        let b = u8_of(get(op, "b"));
        let via = str_of(get(op, "via"));
        let data = vec![b; n];
        let res = guarded(|| match via {
            "append_slice" => sdt.append_slice(&data),
            _ => AmlSink::vec(&mut sdt, &data),
        });
        drop(data);
        total += n as u64;
        let sl = sdt.as_slice();
        let tail_ok = sl.len() >= n && sl[sl.len() - n..].iter().all(|x| *x == b);
        out.emit(json!({"ev":"big","run":run,"via":via,"n":n as u64,"b":b,"panic":res.is_err(),"len":sl.len() as u64,"lenfn":sdt.len() as u64,
            "expect_len":total,"sum8":sum8(sl),"head":jbytes(&sl[..sl.len().min(36)]),"tail_is_fill":tail_ok}));
    }
}

pub fn exec(run: u64, prog: &Value, out: &mut Out) {
    if has(prog, "big") {
        return exec_big(run, prog, out);
    }
    let ops = list(prog, "ops");
    let first = &ops[0];
    assert_eq!(str_of(get(first, "op")), "new");
    let n = u64_of(get(first, "n")) as u32;
    let sig: [u8; 4] = if has(first, "sig") { arr_n(get(first, "sig")) } else { *b"TEST" };
    let rev = if has(first, "rev") { u8_of(get(first, "rev")) } else { 1 };
    let oem_id: [u8; 6] = if has(first, "oem_id") { arr_n(get(first, "oem_id")) } else { [1, 2, 3, 4, 5, 6] };
    let oem_table: [u8; 8] = if has(first, "oem_table") { arr_n(get(first, "oem_table")) } else { [11, 12, 13, 14, 15, 16, 17, 18] };
    let oem_rev = if has(first, "oem_rev") { u32_of(get(first, "oem_rev")) } else { 0xdead_beef };
    let r = guarded(|| Sdt::new(sig, n, rev, oem_id, oem_table, oem_rev));
    let hdr = json!({"sig": jbytes(&sig), "rev": rev, "oem_id": jbytes(&oem_id), "oem_table": jbytes(&oem_table),
        "oem_rev": le(oem_rev as u64, 4), "creator_id": jbytes(&acpi_tables::CREATOR_ID), "creator_rev": jbytes(&acpi_tables::CREATOR_REVISION)});
    let mut sdt = match r {
        Ok(s) => s,
        Err(()) => {
            out.emit(json!({"ev":"new","run":run,"n":n,"hdr":hdr,"panic":true,"slice":[],"len":0,"last":true}));
            return;
        }
    };
    let last = ops.len() == 1;
    out.emit(merge(json!({"ev":"new","run":run,"n":n,"hdr":hdr,"panic":false,"last":last}), observe(&sdt, last)));
    for (i, op) in ops.iter().enumerate().skip(1) {
        let name = str_of(get(op, "op"));
        let v = if has(op, "v") { bytes_of(get(op, "v")) } else { vec![] };
        // byte slices are handed over at every alignment in turn
        let off = (run as usize + i) % 16;
        let mut abuf = vec![0x5Au8; off];
        abuf.extend_from_slice(&v);
        let vs = &abuf[off..];
        let res = guarded(|| match name {
            "append" => match v.len() {
                1 => sdt.append(v[0]),
                2 => sdt.append(u16::from_le_bytes([v[0], v[1]])),
                4 => sdt.append(u32::from_le_bytes([v[0], v[1], v[2], v[3]])),
                8 => sdt.append(u64::from_le_bytes(v.clone().try_into().unwrap())),
                // the typed entry point takes any plain-old-data value: byte arrays of other sizes
                3 => sdt.append(<[u8; 3]>::try_from(&v[..]).unwrap()),
                5 => sdt.append(<[u8; 5]>::try_from(&v[..]).unwrap()),
                6 => sdt.append(<[u8; 6]>::try_from(&v[..]).unwrap()),
                12 => sdt.append(<[u8; 12]>::try_from(&v[..]).unwrap()),
                16 => sdt.append(u128::from_le_bytes(v.clone().try_into().unwrap())),
                _ => panic!("append width"),
            },
            "append_slice" => sdt.append_slice(vs),
            "write" => {
                let off = usize_off(op);
                // alternate between the dedicated write_uN entry points and the generic write<T>
                let generic = has(op, "generic");
                match (v.len(), generic) {
                    (1, false) => sdt.write_u8(off, v[0]),
                    (2, false) => sdt.write_u16(off, u16::from_le_bytes([v[0], v[1]])),
                    (4, false) => sdt.write_u32(off, u32::from_le_bytes([v[0], v[1], v[2], v[3]])),
                    (8, false) => sdt.write_u64(off, u64::from_le_bytes(v.clone().try_into().unwrap())),
                    (1, true) => sdt.write(off, v[0]),
                    (2, true) => sdt.write(off, u16::from_le_bytes([v[0], v[1]])),
                    (4, true) => sdt.write(off, u32::from_le_bytes([v[0], v[1], v[2], v[3]])),
                    (8, true) => sdt.write(off, u64::from_le_bytes(v.clone().try_into().unwrap())),
                    (3, _) => sdt.write(off, <[u8; 3]>::try_from(&v[..]).unwrap()),
                    (5, _) => sdt.write(off, <[u8; 5]>::try_from(&v[..]).unwrap()),
                    (6, _) => sdt.write(off, <[u8; 6]>::try_from(&v[..]).unwrap()),
                    (12, _) => sdt.write(off, <[u8; 12]>::try_from(&v[..]).unwrap()),
                    (16, _) => sdt.write(off, u128::from_le_bytes(v.clone().try_into().unwrap())),
                    _ => panic!("write width"),
                }
            }
            "write_bytes" => sdt.write_bytes(usize_off(op), vs),
            "sink" => match v.len() {
                1 => AmlSink::byte(&mut sdt, v[0]),
                2 => AmlSink::word(&mut sdt, u16::from_le_bytes([v[0], v[1]])),
                4 => AmlSink::dword(&mut sdt, u32::from_le_bytes([v[0], v[1], v[2], v[3]])),
                8 => AmlSink::qword(&mut sdt, u64::from_le_bytes(v.clone().try_into().unwrap())),
                _ => panic!("sink width"),
            },
            "sink_vec" => AmlSink::vec(&mut sdt, vs),
            "update_checksum" => sdt.update_checksum(),
            _ => panic!("unknown sdt op {name}"),
        });
        let last = i + 1 == ops.len();
        let mut e = json!({"ev":name,"run":run,"v":jbytes(&v),"panic":res.is_err(),"last":last});
        if has(op, "off") {
            e["off"] = get(op, "off").clone();
        }
        if has(op, "off_huge") {
            e["off_huge"] = json!(true);
        }
        out.emit(merge(e, observe(&sdt, last)));
    }
}
