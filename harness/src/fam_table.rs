//! Family "table": builder programs over the static tables (C01-C05, C11, C12, C14).
//! A program is {"fam":"table","kind":K,"ctor":{..},"ops":[{"op":..,"a":{..},"calls":[..]},..]}.
//! After the constructor and after every operation the table is serialised into a fresh Vec
//! (serialisation takes &self) and the image is logged together with the operation as executed.
use crate::structs::*;
use crate::util::*;
use acpi_tables::{
    bert, cedt, facs, fadt, hest, hmat, madt, mcfg, pptt, rhct, rimt, rqsc, rsdp, slit, spcr, srat, tpm2, viot, xsdt, Aml,
};
use serde_json::{json, Value};

pub enum T {
    Bert(bert::BERT),
    Cedt(cedt::CEDT),
    Facs(facs::FACS),
    Fadt(fadt::FADT),
    Hest(hest::HEST),
    Hmat(hmat::HMAT),
    Madt(madt::MADT),
    Mcfg(mcfg::MCFG),
    Pptt(pptt::PPTT),
    Rhct(rhct::RHCT),
    Rimt(rimt::RIMT),
    Rqsc(rqsc::RQSC),
    Rsdp(rsdp::Rsdp),
    Slit(slit::SLIT),
    Spcr(spcr::SPCR<'static>),
    Srat(srat::SRAT),
    TcpaClient(tpm2::TpmClient1_2),
    TcpaServer(tpm2::TpmServer1_2),
    Tpm2(tpm2::Tpm2),
    Viot(viot::VIOT),
    Xsdt(xsdt::XSDT),
}

impl T {
    pub fn aml(&self) -> &dyn Aml {
        match self {
            T::Bert(t) => t,
            T::Cedt(t) => t,
            T::Facs(t) => t,
            T::Fadt(t) => t,
            T::Hest(t) => t,
            T::Hmat(t) => t,
            T::Madt(t) => t,
            T::Mcfg(t) => t,
            T::Pptt(t) => t,
            T::Rhct(t) => t,
            T::Rimt(t) => t,
            T::Rqsc(t) => t,
            T::Rsdp(t) => t,
            T::Slit(t) => t,
            T::Spcr(t) => t,
            T::Srat(t) => t,
            T::TcpaClient(t) => t,
            T::TcpaServer(t) => t,
            T::Tpm2(t) => t,
            T::Viot(t) => t,
            T::Xsdt(t) => t,
        }
    }
    pub fn image(&self) -> Vec<u8> {
        ser(self.aml())
    }
}

fn hdr(c: &Value) -> ([u8; 6], [u8; 8], u32) {
    (arr_n(get(c, "oem_id")), arr_n(get(c, "oem_table_id")), u32_of(get(c, "oem_rev")))
}

fn fadt_flag(s: &str) -> fadt::Flags {
    use fadt::Flags as F;
    match s {
        "Wbinvd" => F::Wbinvd,
        "WbinvdFlush" => F::WbinvdFlush,
        "ProcC1" => F::ProcC1,
        "PLvl2Up" => F::PLvl2Up,
        "PwrButton" => F::PwrButton,
        "SlpButton" => F::SlpButton,
        "FixRtc" => F::FixRtc,
        "RtcS4" => F::RtcS4,
        "TmrValExt" => F::TmrValExt,
        "DckCap" => F::DckCap,
        "ResetRegSup" => F::ResetRegSup,
        "SealedCase" => F::SealedCase,
        "Headless" => F::Headless,
        "CpuSwSlp" => F::CpuSwSlp,
        "PciExpWak" => F::PciExpWak,
        "UsePlatformClock" => F::UsePlatformClock,
        "S4RtcStsValid" => F::S4RtcStsValid,
        "RemotePowerOnCapable" => F::RemotePowerOnCapable,
        "ForceApicClusterModel" => F::ForceApicClusterModel,
        "ForceApicPhysicalDestinationMode" => F::ForceApicPhysicalDestinationMode,
        "HwReducedAcpi" => F::HwReducedAcpi,
        "LowPowerS0IdleCapable" => F::LowPowerS0IdleCapable,
        "PersistentCpuCachesNotReported" => F::PersistentCpuCachesNotReported,
        "PersistentCpuCachesNotPersistent" => F::PersistentCpuCachesNotPersistent,
        "PersistentCpuCachesArePersistent" => F::PersistentCpuCachesArePersistent,
        x => panic!("fadt flag {x}"),
    }
}
fn pm_profile(s: &str) -> fadt::PmProfile {
    use fadt::PmProfile as P;
    match s {
        "Unspecified" => P::Unspecified,
        "Desktop" => P::Desktop,
        "Mobile" => P::Mobile,
        "Workstation" => P::Workstation,
        "EnterpriseServer" => P::EnterpriseServer,
        "SohoServer" => P::SohoServer,
        "AppliancePc" => P::AppliancePc,
        "PerformanceServer" => P::PerformanceServer,
        "Tablet" => P::Tablet,
        x => panic!("pm profile {x}"),
    }
}

/// FADT: the builder is consumed by finalize(); each prefix of the call sequence is built afresh.
fn build_fadt(c: &Value, ops: &[Value]) -> fadt::FADT {
    let (o, t, r) = hdr(c);
    let mut b = fadt::FADTBuilder::new(o, t, r);
    for op in ops {
        let a = get(op, "a");
        b = match str_of(get(op, "op")) {
            "dsdt_32" => b.dsdt_32(u32_of(get(a, "v"))),
            "dsdt_64" => b.dsdt_64(u64_of(get(a, "v"))),
            "firmware_ctrl_32" => b.firmware_ctrl_32(u32_of(get(a, "v"))),
            "firmware_ctrl_64" => b.firmware_ctrl_64(u64_of(get(a, "v"))),
            "acpi_enable" => b.acpi_enable(),
            "acpi_disable" => b.acpi_disable(),
            "flag" => b.flag(fadt_flag(str_of(get(a, "v")))),
            "gpe_info" => b.gpe_info(u32_of(get(a, "gpe0_blk")), u32_of(get(a, "gpe1_blk")), u8_of(get(a, "gpe0_len")), u8_of(get(a, "gpe1_len")), u8_of(get(a, "gpe1_base"))),
            "preferred_pm_profile" => b.preferred_pm_profile(pm_profile(str_of(get(a, "v")))),
            "set" => {
                // public fields are filled in by direct assignment
                let v = get(a, "v");
                match str_of(get(a, "f")) {
                    "checksum" => b.checksum = u8_of(v),
                    "flags" => b.flags = u32_of(v).into(),
                    "sci_int" => b.sci_int = u16_of(v).into(),
                    "smi_cmd" => b.smi_cmd = u32_of(v).into(),
                    "s4bios_req" => b.s4bios_req = u8_of(v),
                    "pstate_cnt" => b.pstate_cnt = u8_of(v),
                    "pm1a_evt_blk" => b.pm1a_evt_blk = u32_of(v).into(),
                    "pm1b_evt_blk" => b.pm1b_evt_blk = u32_of(v).into(),
                    "pm1a_cnt_blk" => b.pm1a_cnt_blk = u32_of(v).into(),
                    "pm1b_cnt_blk" => b.pm1b_cnt_blk = u32_of(v).into(),
                    "pm2_cnt_blk" => b.pm2_cnt_blk = u32_of(v).into(),
                    "pm_tmr_blk" => b.pm_tmr_blk = u32_of(v).into(),
                    "pm1_evt_len" => b.pm1_evt_len = u8_of(v),
                    "pm1_cnt_len" => b.pm1_cnt_len = u8_of(v),
                    "pm2_cnt_len" => b.pm2_cnt_len = u8_of(v),
                    "pm_tmr_len" => b.pm_tmr_len = u8_of(v),
                    "cst_cnt" => b.cst_cnt = u8_of(v),
                    "p_lvl2_lat" => b.p_lvl2_lat = u16_of(v).into(),
                    "p_lvl3_lat" => b.p_lvl3_lat = u16_of(v).into(),
                    "flush_size" => b.flush_size = u16_of(v).into(),
                    "flush_stride" => b.flush_stride = u16_of(v).into(),
                    "duty_offset" => b.duty_offset = u8_of(v),
                    "duty_width" => b.duty_width = u8_of(v),
                    "day_alrm" => b.day_alrm = u8_of(v),
                    "mon_alrm" => b.mon_alrm = u8_of(v),
                    "century" => b.century = u8_of(v),
                    "iapc_boot_arch" => b.iapc_boot_arch = u16_of(v).into(),
                    "reset_value" => b.reset_value = u8_of(v),
                    "arm_boot_arch" => b.arm_boot_arch = u16_of(v).into(),
                    "hypervisor_vendor_identity" => b.hypervisor_vendor_identity = u64_of(v).into(),
                    "reset_reg" => b.reset_reg = mk_gas(v),
                    "x_pm1a_evt_blk" => b.x_pm1a_evt_blk = mk_gas(v),
                    "x_pm1b_evt_blk" => b.x_pm1b_evt_blk = mk_gas(v),
                    "x_pm1a_cnt_blk" => b.x_pm1a_cnt_blk = mk_gas(v),
                    "x_pm1b_cnt_blk" => b.x_pm1b_cnt_blk = mk_gas(v),
                    "x_pm2_cnt_blk" => b.x_pm2_cnt_blk = mk_gas(v),
                    "x_pm_tmr_blk" => b.x_pm_tmr_blk = mk_gas(v),
                    "x_gpe0_blk" => b.x_gpe0_blk = mk_gas(v),
                    "x_gpe1_blk" => b.x_gpe1_blk = mk_gas(v),
                    "sleep_control_reg" => b.sleep_control_reg = mk_gas(v),
                    "sleep_status_reg" => b.sleep_status_reg = mk_gas(v),
                    f => panic!("fadt field {f}"),
                }
                b
            }
            x => panic!("fadt call {x}"),
        };
    }
    b.finalize()
}

fn tcpa_server_call(t: tpm2::TpmServer1_2, op: &Value) -> tpm2::TpmServer1_2 {
    let a = get(op, "a");
    match str_of(get(op, "op")) {
        "log_area" => t.log_area(u64_of(get(a, "laml")), u64_of(get(a, "lasa"))),
        "active_low" => t.active_low(),
        "edge_triggered" => t.edge_triggered(),
        "sci_gpe" => t.sci_gpe(u8_of(get(a, "v"))),
        "gsi" => t.gsi(u32_of(get(a, "v"))),
        "bus_is_pnp" => t.bus_is_pnp(),
        "pci_sbdf" => t.pci_sbdf(u8_of(get(a, "seg")), u8_of(get(a, "bus")), u8_of(get(a, "dev")), u8_of(get(a, "fn"))),
        "base_addr" => t.base_addr(mk_gas(get(a, "v"))),
        "config_addr" => t.config_addr(mk_gas(get(a, "v"))),
        x => panic!("tcpa server call {x}"),
    }
}

pub fn new_table(kind: &str, c: &Value) -> T {
    match kind {
        "BERT" => {
            let (o, t, r) = hdr(c);
            T::Bert(bert::BERT::new(o, t, r, u32_of(get(c, "region_len")), u64_of(get(c, "region_base"))))
        }
        "CEDT" => {
            let (o, t, r) = hdr(c);
            T::Cedt(cedt::CEDT::new(o, t, r))
        }
        "FACS" => T::Facs(facs::FACS::new()),
        "FADT" => T::Fadt(build_fadt(c, &[])),
        "HEST" => {
            let (o, t, r) = hdr(c);
            T::Hest(hest::HEST::new(o, t, r))
        }
        "HMAT" => {
            let (o, t, r) = hdr(c);
            T::Hmat(hmat::HMAT::new(o, t, r))
        }
        "MADT" => {
            let (o, t, r) = hdr(c);
            let lic = if str_of(get(c, "lic")) == "Riscv" { madt::LocalInterruptController::Riscv } else { madt::LocalInterruptController::Address(u32_of(get(c, "lic_addr"))) };
            T::Madt(madt::MADT::new(o, t, r, lic))
        }
        "MCFG" => {
            let (o, t, r) = hdr(c);
            T::Mcfg(mcfg::MCFG::new(o, t, r))
        }
        "PPTT" => {
            let (o, t, r) = hdr(c);
            T::Pptt(pptt::PPTT::new(o, t, r))
        }
        "RHCT" => {
            let (o, t, r) = hdr(c);
            T::Rhct(rhct::RHCT::new(o, t, r, u64_of(get(c, "timebase"))))
        }
        "RIMT" => {
            let (o, t, r) = hdr(c);
            T::Rimt(rimt::RIMT::new(o, t, r))
        }
        "RQSC" => {
            let (o, t, r) = hdr(c);
            T::Rqsc(rqsc::RQSC::new(o, t, r))
        }
        "RSDP" => T::Rsdp(rsdp::Rsdp::new(arr_n(get(c, "oem_id")), u64_of(get(c, "xsdt")))),
        "SLIT" => {
            let (o, t, r) = hdr(c);
            T::Slit(slit::SLIT::new(o, t, r, u32_of(get(c, "n"))))
        }
        "SPCR" => {
            let (o, t, r) = hdr(c);
            T::Spcr(spcr::SPCR::sbi(o, t, r))
        }
        "SRAT" => {
            let (o, t, r) = hdr(c);
            T::Srat(srat::SRAT::new(o, t, r))
        }
        "TCPA_CLIENT" => {
            let (o, t, r) = hdr(c);
            T::TcpaClient(tpm2::TpmClient1_2::new(o, t, r, u32_of(get(c, "laml")), u64_of(get(c, "lasa"))))
        }
        "TCPA_SERVER" => {
            let (o, t, r) = hdr(c);
            T::TcpaServer(tpm2::TpmServer1_2::new(o, t, r))
        }
        "TPM2" => {
            let (o, t, r) = hdr(c);
            let class = match str_of(get(c, "class")) {
                "Client" => tpm2::PlatformClass::Client,
                "Server" => tpm2::PlatformClass::Server,
                x => panic!("class {x}"),
            };
            use tpm2::StartMethod as S;
            let start = match str_of(get(c, "start")) {
                "LegacyUse" => S::LegacyUse,
                "AcpiStart" => S::AcpiStart,
                "Mmio" => S::Mmio,
                "Crb" => S::Crb,
                "CrbAndAcpiStart" => S::CrbAndAcpiStart,
                "CrbAndSmcHvc" => S::CrbAndSmcHvc,
                "I2cFifo" => S::I2cFifo,
                x => panic!("start {x}"),
            };
            T::Tpm2(tpm2::Tpm2::new(o, t, r, class, u64_of(get(c, "base")), start))
        }
        "VIOT" => {
            let (o, t, r) = hdr(c);
            T::Viot(viot::VIOT::new(o, t, r))
        }
        "XSDT" => {
            let (o, t, r) = hdr(c);
            T::Xsdt(xsdt::XSDT::new(o, t, r))
        }
        x => panic!("unknown table kind {x}"),
    }
}

/// An entry obtained from the entry type's `Default` (all fields zero) handed to the table's add operation.
fn add_default(t: &mut T, st: &str) -> H {
    match (t, st) {
        (T::Madt(t), "lapic") => t.add_structure(madt::ProcessorLocalApic::default()),
        (T::Madt(t), "ioapic") => t.add_structure(madt::IoApic::default()),
        (T::Madt(t), "gicc") => t.add_structure(madt::Gicc::default()),
        (T::Madt(t), "gicd") => t.add_structure(madt::Gicd::default()),
        (T::Madt(t), "gicmsi") => t.add_structure(madt::GicMsi::default()),
        (T::Madt(t), "gicr") => t.add_structure(madt::Gicr::default()),
        (T::Madt(t), "gicits") => t.add_structure(madt::GicIts::default()),
        (T::Madt(t), "rintc") => t.add_structure(madt::RINTC::default()),
        (T::Madt(t), "imsic") => t.add_structure(madt::IMSIC::default()),
        (T::Srat(t), "rintcaff") => t.add_rintc_affinity(srat::RintcAffinity::default()),
        (T::Hmat(t), "mpda") => t.add_memory_proximity(hmat::MemoryProximityDomain::default()),
        (T::Pptt(t), "cache") => return H::Cache(t.add_cache(pptt::CacheNode::default())),
        (T::Hest(t), "aerroot") => t.add_structure(hest::PcieAerRootPort::default()),
        (T::Hest(t), "aerdev") => t.add_structure(hest::PcieAerDevice::default()),
        (T::Hest(t), "aerbridge") => t.add_structure(hest::PcieAerBridge::default()),
        (T::Hest(t), "ghes") => t.add_structure(hest::GenericHardwareSource::default()),
        (T::Hest(t), "ghesv2") => t.add_structure(hest::GenericHardwareSourceV2::default()),
        (T::Rqsc(t), "qos") => t.add_controller(rqsc::QoSController::default()),
        (_, x) => panic!("add_default {x}"),
    }
    H::None
}

/// Apply one operation; returns the handle it produced (H::None if none).
/// `done` is the operations applied before this one (FADT rebuilds from the prefix).
pub fn apply(t: &mut T, c: &Value, done: &[Value], op: &Value, hs: &Hs) -> H {
    let name = str_of(get(op, "op"));
    let a = op.get("a").cloned().unwrap_or(json!({}));
    if name == "add_default" {
        return add_default(t, str_of(get(&a, "st")));
    }
    match t {
        T::Fadt(f) => {
            let mut all = done.to_vec();
            all.push(op.clone());
            *f = build_fadt(c, &all);
            H::None
        }
        T::TcpaServer(s) => {
            *s = tcpa_server_call(*s, op);
            H::None
        }
        T::Tpm2(t) => match name {
            "set_log_area" => {
                t.set_log_area(u32_of(get(&a, "min_len")), u64_of(get(&a, "base")));
                H::None
            }
            x => panic!("tpm2 op {x}"),
        },
        T::Xsdt(t) => match name {
            "add_entry" => {
                t.add_entry(u64_of(get(&a, "v")));
                H::None
            }
            x => panic!("xsdt op {x}"),
        },
        T::Mcfg(t) => match name {
            "add_ecam" => {
                t.add_ecam(u64_of(get(&a, "base")), u16_of(get(&a, "seg")), u8_of(get(&a, "start")), u8_of(get(&a, "end")));
                H::None
            }
            x => panic!("mcfg op {x}"),
        },
        T::Slit(t) => match name {
            "set_distance" => {
                t.set_distance(u64_of(get(&a, "a")) as usize, u64_of(get(&a, "b")) as usize, u8_of(get(&a, "v")));
                H::None
            }
            x => panic!("slit op {x}"),
        },
        T::Madt(t) => {
            match name {
                "add_lapic" => t.add_structure(mk_lapic(op)),
                "add_ioapic" => t.add_structure(mk_ioapic(op)),
                "add_gicc" => t.add_structure(mk_gicc(op)),
                "add_gicd" => t.add_structure(mk_gicd(op)),
                "add_gicmsi" => t.add_structure(mk_gicmsi(op)),
                "add_gicr" => t.add_structure(mk_gicr(op)),
                "add_gicits" => t.add_structure(mk_gicits(op)),
                "add_rintc" => t.add_structure(mk_rintc(op)),
                "add_imsic" => t.add_imsic(mk_imsic(op)),
                "add_imsic_raw" => t.add_structure(mk_imsic(op)),
                "add_aplic" => t.add_structure(mk_aplic(op)),
                "add_plic" => t.add_structure(mk_plic(op)),
                x => panic!("madt op {x}"),
            };
            H::None
        }
        T::Srat(t) => {
            match name {
                "add_memory_affinity" => t.add_memory_affinity(mk_memaff(op)),
                "add_generic_initiator" => t.add_generic_initiator(mk_geninit(op)),
                "add_rintc_affinity" => t.add_rintc_affinity(mk_rintcaff(op)),
                x => panic!("srat op {x}"),
            };
            H::None
        }
        T::Hmat(t) => {
            match name {
                "add_memory_proximity" => t.add_memory_proximity(mk_mpda(op)),
                "add_system_locality" => t.add_system_locality(mk_sllbi(op)),
                "add_memory_side_cache" => t.add_memory_side_cache(mk_msci(op)),
                x => panic!("hmat op {x}"),
            };
            H::None
        }
        T::Pptt(t) => match name {
            "add_processor" => H::Proc(t.add_processor(mk_proc(op, hs))),
            "add_cache" => H::Cache(t.add_cache(mk_cache(op, hs))),
            x => panic!("pptt op {x}"),
        },
        T::Rhct(t) => match name {
            "add_isa_string" => H::Isa(t.add_isa_string(leak_str(get(&a, "str")))),
            "add_mmu_node" => {
                t.add_mmu_node(mmu_scheme(op));
                H::None
            }
            "add_cmo" => H::Cmo(t.add_cmo(mk_cmo(op))),
            "add_hart_info" => {
                t.add_hart_info(mk_hart(op, hs));
                H::None
            }
            x => panic!("rhct op {x}"),
        },
        T::Rimt(t) => match name {
            "add_iommu" => H::Iommu(t.add_iommu(mk_iommu(op))),
            "add_pcie_root_complex" => {
                t.add_pcie_root_complex(mk_rc(op, hs));
                H::None
            }
            "add_platform" => {
                t.add_platform(mk_plat(op, hs));
                H::None
            }
            x => panic!("rimt op {x}"),
        },
        T::Viot(t) => match name {
            "add_pci_range" => {
                t.add_pci_range(mk_pcirange(op, hs));
                H::None
            }
            "add_mmio_endpoint" => {
                t.add_mmio_endpoint(mk_mmioep(op, hs));
                H::None
            }
            "add_virtio_pci_iommu" => H::Xlat(t.add_virtio_pci_iommu(mk_vpciiommu(op))),
            "add_virtio_mmio_iommu" => H::Xlat(t.add_virtio_mmio_iommu(mk_vmmioiommu(op))),
            x => panic!("viot op {x}"),
        },
        T::Cedt(t) => {
            match name {
                "add_host_bridge" => t.add_host_bridge(mk_chbs(op)),
                "add_fixed_memory" => t.add_fixed_memory(mk_cfmws(op)),
                "add_xor_interleave_math" => t.add_xor_interleave_math(mk_cxims(op)),
                "add_port_association" => t.add_port_association(mk_rdpas(op)),
                x => panic!("cedt op {x}"),
            };
            H::None
        }
        T::Hest(t) => {
            match name {
                "add_aer_root_port" => t.add_structure(mk_aerroot(op)),
                "add_aer_device" => t.add_structure(mk_aerdev(op)),
                "add_aer_bridge" => t.add_structure(mk_aerbridge(op)),
                "add_ghes" => t.add_structure(mk_ghes(op)),
                "add_ghes_v2" => t.add_structure(mk_ghesv2(op)),
                x => panic!("hest op {x}"),
            };
            H::None
        }
        T::Rqsc(t) => {
            match name {
                "add_controller" => t.add_controller(mk_qos(op)),
                x => panic!("rqsc op {x}"),
            };
            H::None
        }
        T::Facs(f) => match name {
            "set" => {
                let v = get(&a, "v");
                match str_of(get(&a, "f")) {
                    "hardware_signature" => f.hardware_signature = u32_of(v).into(),
                    "waking" => f.waking = u32_of(v).into(),
                    "lock" => f.lock = u32_of(v).into(),
                    "flags" => f.flags = u32_of(v).into(),
                    "x_waking" => f.x_waking = u64_of(v).into(),
                    "ospm_flags" => f.ospm_flags = u32_of(v).into(),
                    x => panic!("facs field {x}"),
                }
                H::None
            }
            x => panic!("facs op {x}"),
        },
        T::Bert(_) | T::Rsdp(_) | T::Spcr(_) | T::TcpaClient(_) => panic!("table has no operations: {name}"),
    }
}

fn ctor_logged(kind: &str, c: &Value) -> Value {
    // the crate's public constants that appear in headers, so the specification need not pin them
    let mut c = c.clone();
    if !c.is_object() {
        c = json!({});
    }
    c["creator_id"] = jbytes(&acpi_tables::CREATOR_ID);
    c["creator_rev"] = jbytes(&acpi_tables::CREATOR_REVISION);
    let _ = kind;
    c
}

fn obs_img(img: &[u8], full_limit: usize) -> Value {
    if img.len() <= full_limit {
        json!({"img": jbytes(img)})
    } else {
        // too large to ship verbatim: generic observations only (length, byte sum, head)
        json!({"big": true, "len": img.len() as u64, "sum8": sum8(img), "head": jbytes(&img[..48])})
    }
}

pub fn exec(run: u64, prog: &Value, out: &mut Out) {
    let kind = str_of(get(prog, "kind"));
    let c = prog.get("ctor").cloned().unwrap_or(json!({}));
    let ops = list(prog, "ops");
    let observe_every = prog.get("observe_every").map(u64_of).unwrap_or(1) as usize;
    let full_limit = prog.get("full_limit").map(u64_of).unwrap_or(1 << 20) as usize;
    let t = guarded(|| new_table(kind, &c));
    let mut t = match t {
        Ok(t) => t,
        Err(()) => {
            out.emit(json!({"ev":"new","run":run,"kind":kind,"ctor":ctor_logged(kind, &c),"panic":true,"img":[]}));
            return;
        }
    };
    out.emit(merge(json!({"ev":"new","run":run,"kind":kind,"ctor":ctor_logged(kind, &c),"panic":false}), obs_img(&t.image(), full_limit)));
    let mut hs = Hs(Vec::new());
    let summary = prog.get("summary").map(bool_of).unwrap_or(false);
    let mut seen_panic = false;
    let mut refusals: u64 = 0;
    // "shadow": a second table of the same kind kept alive and extended in lock-step (its operations come from the
    // main program's own list, shifted by one): two builders of one type must not influence each other
    let shadow_on = prog.get("shadow").map(bool_of).unwrap_or(false);
    let mut shadow: Option<(T, Hs)> = if shadow_on { guarded(|| new_table(kind, &c)).ok().map(|t| (t, Hs(Vec::new()))) } else { None };
    for (i, op) in ops.iter().enumerate() {
        if let Some((st, shs)) = shadow.as_mut() {
            // the shadow replays the main program one step behind (so its handles are valid for its own references)
            if i > 0 {
                let prev = &ops[i - 1];
                let r = guarded(|| apply(st, &c, &ops[..i - 1], prev, shs));
                match r {
                    Ok(h) => shs.0.push(h),
                    Err(()) => shadow = None,
                }
            }
        }
        let len_before = if summary { guarded(|| t.image().len()).unwrap_or(0) as u64 } else { 0 };
        let r = guarded(|| apply(&mut t, &c, &ops[..i], op, &hs));
        let (h, panicked) = match r {
            Ok(h) => (h, false),
            Err(()) => (H::None, true),
        };
        let ret = match h.value() {
            Some(v) => le(v, 4),
            None => json!([]),
        };
        hs.0.push(h);
        // the first refusal of a program is always observed; later ones follow the program's cadence
        let observe = (panicked && !seen_panic) || i + 1 == ops.len() || (i + 1) % observe_every == 0 || i < 4;
        seen_panic |= panicked;
        if panicked {
            refusals += 1;
        }
        if summary {
            // long histories: only generic observations of the image at the observed steps, no per-operation record
            if observe {
                let img = guarded(|| t.image()).unwrap_or_default();
                let head = &img[..img.len().min(64)];
                out.emit(json!({"ev":"sum","run":run,"kind":kind,"i":i + 1,"panic":panicked,"len":img.len() as u64,
                    "refusals":refusals,"len_before":len_before,"sum8":sum8(&img),"head":jbytes(head),"opname":str_of(get(op, "op"))}));
            }
            continue;
        }
        let mut e = json!({"ev":"op","run":run,"i":i + 1,"op":op,"ret":ret,"panic":panicked,"observed":observe});
        if observe {
            let img = guarded(|| t.image());
            match img {
                Ok(img) => e = merge(e, obs_img(&img, full_limit)),
                Err(()) => {
                    e["img"] = json!([]);
                    e["ser_panic"] = json!(true);
                }
            }
        }
        out.emit(e);
        // a refused operation (panic) is not the end of the program: the caller may catch it and go on using the
        // table, which must then behave as if the refused operation had never been made
    }
}
