//! Family "checksum" (C17): drive acpi_tables::Checksum.
use crate::util::*;
use acpi_tables::{AmlSink, Checksum};
use serde_json::{json, Value};

fn obs(c: &Checksum) -> (u8, u8) {
    (c.raw_value(), c.value())
}

pub fn exec(run: u64, prog: &Value, out: &mut Out) {
    if has(prog, "table") {
        return table(run, out);
    }
    let mut c = Checksum::default();
    let (r, v) = obs(&c);
    out.emit(json!({"ev":"reset","run":run,"raw":r,"value":v,"panic":false}));
    for (opi, op) in list(prog, "ops").iter().enumerate() {
        let name = str_of(get(op, "op"));
        if name == "append_fill" || name == "delete_fill" || name == "sink_vec_fill" {
            let n = u64_of(get(op, "n")) as usize;
            let b = u8_of(get(op, "b"));
            // the slice starts at every alignment in turn (an implementation may treat an unaligned head specially)
            let off = (run as usize + n) % 16;
            let buf = vec![b; n + off];
            let data = &buf[off..];
            let res = guarded(|| match name {
                "append_fill" => c.append(data),
                "delete_fill" => c.delete(data),
                _ => AmlSink::vec(&mut c, data),
            });
            let (r, v) = obs(&c);
            out.emit(json!({"ev":name,"run":run,"n":n as u64,"b":b,"raw":r,"value":v,"panic":res.is_err()}));
            continue;
        }
        if name == "append_two" || name == "delete_two" {
            // a slice in two uniform parts (ka MiB + ra bytes of a, then kb MiB + rb bytes of b): non-uniform and, with
            // enough MiB, longer than 2^32 bytes
            let (ka, ra, kb, rb) = (u64_of(get(op, "ka")) as usize, u64_of(get(op, "ra")) as usize, u64_of(get(op, "kb")) as usize, u64_of(get(op, "rb")) as usize);
            let (a, b) = (u8_of(get(op, "a")), u8_of(get(op, "b")));
            let na = (ka << 20) + ra;
            let nb = (kb << 20) + rb;
            let mut buf = vec![a; na + nb];
            buf[na..].fill(b);
            let res = guarded(|| if name == "append_two" { c.append(&buf) } else { c.delete(&buf) });
            drop(buf);
            let (r, v) = obs(&c);
            out.emit(json!({"ev":name,"run":run,"ka":ka as u64,"ra":ra as u64,"kb":kb as u64,"rb":rb as u64,"a":a,"b":b,"raw":r,"value":v,"panic":res.is_err()}));
            continue;
        }
        let arg = bytes_of(get(op, "arg"));
        // slices are handed over at every alignment in turn
        let off = (run as usize + arg.len() + opi) % 16;
        let mut buf = vec![0xA5u8; off];
        buf.extend_from_slice(&arg);
        let arg = &buf[off..];
        let res = guarded(|| match name {
            "add" => c.add(arg[0]),
            "sub" => c.sub(arg[0]),
            "append" => c.append(arg),
            "delete" => c.delete(arg),
            "sink_byte" => AmlSink::byte(&mut c, arg[0]),
            "sink_word" => AmlSink::word(&mut c, u16::from_le_bytes([arg[0], arg[1]])),
            "sink_dword" => AmlSink::dword(&mut c, u32::from_le_bytes([arg[0], arg[1], arg[2], arg[3]])),
            "sink_qword" => {
                let mut q = [0u8; 8];
                q.copy_from_slice(arg);
                AmlSink::qword(&mut c, u64::from_le_bytes(q))
            }
            "sink_vec" => AmlSink::vec(&mut c, arg),
            _ => panic!("unknown checksum op {name}"),
        });
        let (r, v) = obs(&c);
        out.emit(json!({"ev":name,"run":run,"arg":jbytes(arg),"raw":r,"value":v,"panic":res.is_err()}));
    }
}

/// The complete single-byte transition table: for every state s (reached by add(s) from the
/// default state) and every byte b, the state after add(b) / sub(b), its reported checksum, and
/// the state after applying the inverse operation again.
fn table(run: u64, out: &mut Out) {
    for s in 0..=255u8 {
        for which in ["add_all", "sub_all"] {
            let mut raws = Vec::new();
            let mut values = Vec::new();
            let mut backs = Vec::new();
            for b in 0..=255u8 {
                // a panic of the accumulator is data: recorded as -1
                let r = guarded(|| {
                    let mut c = Checksum::default();
                    c.add(s);
                    if which == "add_all" {
                        c.add(b)
                    } else {
                        c.sub(b)
                    }
                    let (raw, value) = (c.raw_value(), c.value());
                    if which == "add_all" {
                        c.sub(b)
                    } else {
                        c.add(b)
                    }
                    (raw, value, c.raw_value())
                });
                match r {
                    Ok((raw, value, back)) => {
                        raws.push(json!(raw));
                        values.push(json!(value));
                        backs.push(json!(back));
                    }
                    Err(()) => {
                        raws.push(json!(-1));
                        values.push(json!(-1));
                        backs.push(json!(-1));
                    }
                }
            }
            out.emit(json!({"ev":which,"run":run,"s":s,"raws":raws,"values":values,"backs":backs}));
        }
    }
}
