//! Family "aml" and friends (C06-C10, C15, C16): AML term trees built from JSON.
//! `Node` owns its children and implements `Aml` by constructing the crate's borrowed-child object
//! inside `to_aml_bytes` -- this sidesteps the `&'a dyn Aml` lifetimes without touching the crate.
use crate::structs::mk_gas;
use crate::util::*;
use acpi_tables::aml;
use acpi_tables::{Aml, AmlSink};
use serde_json::{json, Value};

pub struct Node(pub Value);

fn s_of(v: &Value) -> String {
    String::from_utf8(bytes_of(v)).expect("utf8 string")
}
fn path(v: &Value) -> aml::Path {
    aml::Path::new(&s_of(get(v, "path")))
}

macro_rules! keep {
    ($arena:expr, $e:expr) => {{
        let o = $e;
        $arena.keep(o)
    }};
}

/// Objects built for one program: the crate's containers borrow their children (`&'a dyn Aml`), so every object is
/// boxed, leaked for the duration of the program and released afterwards (parents before children).
pub struct Arena(Vec<*mut dyn Aml>, Option<std::collections::HashMap<String, &'static dyn Aml>>);
impl Arena {
    pub fn new() -> Self {
        Arena(Vec::new(), None)
    }
    /// equal sub-trees become ONE object that is handed to every place where it occurs
    pub fn sharing() -> Self {
        Arena(Vec::new(), Some(std::collections::HashMap::new()))
    }
    fn keep<T: Aml + 'static>(&mut self, t: T) -> &'static dyn Aml {
        let b: Box<dyn Aml> = Box::new(t);
        let p = Box::into_raw(b);
        self.0.push(p);
        unsafe { &*p }
    }
    pub fn free(self) {
        for p in self.0.into_iter().rev() {
            unsafe { drop(Box::from_raw(p)) }
        }
    }
}
struct RawBytes(Vec<u8>);
impl Aml for RawBytes {
    fn to_aml_bytes(&self, sink: &mut dyn AmlSink) {
        sink.vec(&self.0)
    }
}

/// A child position: in native mode the crate's own object for the child (what callers normally pass), otherwise a
/// `Node` -- a user-defined `Aml` implementor that only knows how to serialise itself.
fn child(v: &Value, native: bool, arena: &mut Arena) -> &'static dyn Aml {
    if native {
        if arena.1.is_some() {
            let key = v.to_string();
            if let Some(o) = arena.1.as_ref().unwrap().get(&key) {
                return *o;
            }
            let o = build(v, true, arena);
            arena.1.as_mut().unwrap().insert(key, o);
            return o;
        }
        build(v, true, arena)
    } else {
        arena.keep(Node(v.clone()))
    }
}
fn kids(x: &Value, k: &str, native: bool, arena: &mut Arena) -> Vec<&'static dyn Aml> {
    list(x, k).iter().map(|c| child(c, native, arena)).collect()
}

impl Aml for Node {
    fn to_aml_bytes(&self, sink: &mut dyn AmlSink) {
        let mut arena = Arena::new();
        build(&self.0, false, &mut arena).to_aml_bytes(sink);
        arena.free();
    }
}

/// The same tree with every node the crate's own object (the root of a native build, usable wherever a `&dyn Aml` is wanted).
pub struct NativeNode(pub Value);
impl Aml for NativeNode {
    fn to_aml_bytes(&self, sink: &mut dyn AmlSink) {
        let mut arena = Arena::new();
        build(&self.0, true, &mut arena).to_aml_bytes(sink);
        arena.free();
    }
}

/// The crate's object for a term tree.
pub fn build(x: &Value, native: bool, arena: &mut Arena) -> &'static dyn Aml {
    {
        let t = str_of(get(x, "t"));
        macro_rules! n {
            ($k:expr) => {
                child(get(x, $k), native, arena)
            };
        }
        match t {
            "Zero" => keep!(arena, aml::ZERO),
            "One" => keep!(arena, aml::ONE),
            "Ones" => keep!(arena, aml::ONES),
            "Int" => {
                let v = u64_of(get(x, "v"));
                match str_of(get(x, "ty")) {
                    "u8" => keep!(arena, (v as u8)),
                    "u16" => keep!(arena, (v as u16)),
                    "u32" => keep!(arena, (v as u32)),
                    "u64" => keep!(arena, v),
                    "usize" => keep!(arena, (v as usize)),
                    ty => panic!("int type {ty}"),
                }
            }
            "Str" => {
                let s = s_of(get(x, "s"));
                if x.get("owned").map(bool_of).unwrap_or(false) {
                    keep!(arena, s)
                } else {
                    let st: &'static str = Box::leak(s.into_boxed_str());
                    keep!(arena, st)
                }
            }
            "Path" => keep!(arena, aml::Path::new(&s_of(get(x, "s")))),
            "Eisa" => keep!(arena, aml::EISAName::new(&s_of(get(x, "s")))),
            "Name" => keep!(arena, aml::Name::new(path(x), n!("v"))),
            "FieldName" => keep!(arena, aml::Name::new_field_name(&s_of(get(x, "s")))),
            "Package" => {
                let ch = kids(x, "ch", native, arena);
                keep!(arena, aml::Package::new(ch))
            }
            "PackageBuilder" => {
                let mut pb = if x.get("default").map(bool_of).unwrap_or(false) { aml::PackageBuilder::default() } else { aml::PackageBuilder::new() };
                for c in kids(x, "ch", native, arena) {
                    pb.add_element(c);
                }
                keep!(arena, pb)
            }
            "VarPackage" => keep!(arena, aml::VarPackageTerm::new(n!("v"))),
            "BufferData" => keep!(arena, aml::BufferData::new(bytes_of(get(x, "d")))),
            "BufferFill" => keep!(arena, aml::BufferData::new(vec![u8_of(get(x, "b")); u64_of(get(x, "n")) as usize])),
            "BufferTerm" => keep!(arena, aml::BufferTerm::new(n!("v"))),
            "Uuid" => keep!(arena, aml::Uuid::new(&s_of(get(x, "s")))),
            "ResourceTemplate" => {
                let ch = kids(x, "ch", native, arena);
                keep!(arena, aml::ResourceTemplate::new(ch))
            }
            "Memory32Fixed" => keep!(arena, aml::Memory32Fixed::new(bool_of(get(x, "rw")), u32_of(get(x, "base")), u32_of(get(x, "len")))),
            "IO" => keep!(arena, aml::IO::new(u16_of(get(x, "min")), u16_of(get(x, "max")), u8_of(get(x, "align")), u8_of(get(x, "len")))),
            "Interrupt" => keep!(arena, aml::Interrupt::new(bool_of(get(x, "consumer")), bool_of(get(x, "edge")), bool_of(get(x, "low")), bool_of(get(x, "shared")), u32_of(get(x, "num")))),
            "Register" => keep!(arena, aml::Register::new(mk_gas(get(x, "reg")))),
            "AddrSpace" => addr_space(x, arena),
            "Device" => {
                let ch = kids(x, "ch", native, arena);
                keep!(arena, aml::Device::new(path(x), ch))
            }
            "Scope" => {
                let ch = kids(x, "ch", native, arena);
                keep!(arena, aml::Scope::new(path(x), ch))
            }
            "ScopeRaw" => {
                let mut body = Vec::new();
                for c in kids(x, "ch", native, arena) {
                    c.to_aml_bytes(&mut body);
                }
                keep!(arena, RawBytes(aml::Scope::raw(path(x), body)))
            }
            "Method" => {
                let ch = kids(x, "ch", native, arena);
                keep!(arena, aml::Method::new(path(x), u8_of(get(x, "args")), bool_of(get(x, "ser")), ch))
            }
            "PowerResource" => {
                let ch = kids(x, "ch", native, arena);
                keep!(arena, aml::PowerResource::new(path(x), u8_of(get(x, "level")), u16_of(get(x, "order")), ch))
            }
            "Field" => {
                use aml::{FieldAccessType as A, FieldEntry, FieldLockRule as L, FieldUpdateRule as U};
                let access = match str_of(get(x, "access")) {
                    "Any" => A::Any,
                    "Byte" => A::Byte,
                    "Word" => A::Word,
                    "DWord" => A::DWord,
                    "QWord" => A::QWord,
                    "Buffer" => A::Buffer,
                    a => panic!("access {a}"),
                };
                let lock = match str_of(get(x, "lock")) {
                    "NoLock" => L::NoLock,
                    "Lock" => L::Lock,
                    a => panic!("lock {a}"),
                };
                let update = match str_of(get(x, "update")) {
                    "Preserve" => U::Preserve,
                    "WriteAsOnes" => U::WriteAsOnes,
                    "WriteAsZeroes" => U::WriteAsZeroes,
                    a => panic!("update {a}"),
                };
                let fields = list(x, "fields")
                    .iter()
                    .map(|f| match str_of(get(f, "k")) {
                        // "bitsw": a width beyond 2^31 as a little-endian byte string
                        "named" => FieldEntry::Named(arr_n(get(f, "name")), u64_of(f.get("bitsw").unwrap_or_else(|| get(f, "bits"))) as usize),
                        _ => FieldEntry::Reserved(u64_of(f.get("bitsw").unwrap_or_else(|| get(f, "bits"))) as usize),
                    })
                    .collect();
                keep!(arena, aml::Field::new(path(x), access, lock, update, fields))
            }
            "OpRegion" => {
                use aml::OpRegionSpace as S;
                let space = match str_of(get(x, "space")) {
                    "SystemMemory" => S::SystemMemory,
                    "SystemIO" => S::SystemIO,
                    "PCIConfig" => S::PCIConfig,
                    "EmbeddedControl" => S::EmbeddedControl,
                    "SMBus" => S::SMBus,
                    "SystemCMOS" => S::SystemCMOS,
                    "PciBarTarget" => S::PciBarTarget,
                    "IPMI" => S::IPMI,
                    "GeneralPurposeIO" => S::GeneralPurposeIO,
                    "GenericSerialBus" => S::GenericSerialBus,
                    a => panic!("space {a}"),
                };
                keep!(arena, aml::OpRegion::new(path(x), space, n!("off"), n!("len")))
            }
            "Mutex" => keep!(arena, aml::Mutex::new(path(x), u8_of(get(x, "sync")))),
            "Acquire" => keep!(arena, aml::Acquire::new(path(x), u16_of(get(x, "timeout")))),
            "Release" => keep!(arena, aml::Release::new(path(x))),
            "If" => {
                let ch = kids(x, "ch", native, arena);
                keep!(arena, aml::If::new(n!("p"), ch))
            }
            "Else" => {
                let ch = kids(x, "ch", native, arena);
                keep!(arena, aml::Else::new(ch))
            }
            "While" => {
                let ch = kids(x, "ch", native, arena);
                keep!(arena, aml::While::new(n!("p"), ch))
            }
            "Cmp" => {
                let (l, r) = (n!("l"), n!("r"));
                match str_of(get(x, "op")) {
                    "Equal" => keep!(arena, aml::Equal::new(l, r)),
                    "LessThan" => keep!(arena, aml::LessThan::new(l, r)),
                    "GreaterThan" => keep!(arena, aml::GreaterThan::new(l, r)),
                    "NotEqual" => keep!(arena, aml::NotEqual::new(l, r)),
                    "GreaterEqual" => keep!(arena, aml::GreaterEqual::new(l, r)),
                    "LessEqual" => keep!(arena, aml::LessEqual::new(l, r)),
                    o => panic!("cmp {o}"),
                }
            }
            "Arg" => keep!(arena, aml::Arg(u8_of(get(x, "n")))),
            "Local" => keep!(arena, aml::Local(u8_of(get(x, "n")))),
            "Store" => keep!(arena, aml::Store::new(n!("name"), n!("value"))),
            "Notify" => keep!(arena, aml::Notify::new(n!("obj"), n!("value"))),
            "Un" => {
                let a = n!("a");
                match str_of(get(x, "op")) {
                    "ObjectType" => keep!(arena, aml::ObjectType::new(a)),
                    "SizeOf" => keep!(arena, aml::SizeOf::new(a)),
                    "Return" => keep!(arena, aml::Return::new(a)),
                    "DeRefOf" => keep!(arena, aml::DeRefOf::new(a)),
                    o => panic!("un {o}"),
                }
            }
            "Bin" => {
                let (tg, a, b) = (n!("target"), n!("a"), n!("b"));
                macro_rules! bin {
                    ($($name:ident),*) => {
                        match str_of(get(x, "op")) {
                            $(stringify!($name) => keep!(arena, aml::$name::new(tg, a, b)),)*
                            o => panic!("bin {o}"),
                        }
                    };
                }
                bin!(Add, Concat, Subtract, Multiply, ShiftLeft, ShiftRight, And, Nand, Or, Nor, Xor, ConcatRes, Mod, Index, ToString, CreateDWordField, CreateQWordField)
            }
            "Conv" => {
                let (tg, a) = (n!("target"), n!("a"));
                match str_of(get(x, "op")) {
                    "ToBuffer" => keep!(arena, aml::ToBuffer::new(tg, a)),
                    "ToInteger" => keep!(arena, aml::ToInteger::new(tg, a)),
                    o => panic!("conv {o}"),
                }
            }
            "CreateField" => keep!(arena, aml::CreateField::new(n!("name"), n!("src"), n!("idx"), n!("nbits"))),
            "Mid" => keep!(arena, aml::Mid::new(n!("src"), n!("idx"), n!("len"), n!("res"))),
            "MethodCall" => {
                let args = kids(x, "args", native, arena);
                keep!(arena, aml::MethodCall::new(path(x), args))
            }
            o => panic!("unknown aml node {o}"),
        }
    }
}

fn cacheable(s: &str) -> aml::AddressSpaceCacheable {
    use aml::AddressSpaceCacheable as C;
    match s {
        "NotCacheable" => C::NotCacheable,
        "Cacheable" => C::Cacheable,
        "WriteCombining" => C::WriteCombining,
        "PreFetchable" => C::PreFetchable,
        x => panic!("cacheable {x}"),
    }
}

fn addr_space(x: &Value, arena: &mut Arena) -> &'static dyn Aml {
    let w = u64_of(get(x, "w"));
    let kind = str_of(get(x, "kind"));
    macro_rules! go {
        ($ty:ty, $conv:ident) => {{
            let min = $conv(get(x, "min")) as $ty;
            let max = $conv(get(x, "max")) as $ty;
            let trans = if has(x, "trans") { Some($conv(get(x, "trans")) as $ty) } else { None };
            let a: aml::AddressSpace<$ty> = match kind {
                "memory" => aml::AddressSpace::new_memory(cacheable(str_of(get(x, "cache"))), bool_of(get(x, "rw")), min, max, trans),
                "io" => aml::AddressSpace::new_io(min, max, trans),
                "bus" => aml::AddressSpace::new_bus_number(min, max),
                k => panic!("addr kind {k}"),
            };
            keep!(arena, a)
        }};
    }
    match w {
        2 => go!(u16, u16_of),
        4 => go!(u32, u32_of),
        8 => go!(u64, u64_of),
        _ => panic!("addr width"),
    }
}

pub fn encode(tree: &Value) -> Result<Vec<u8>, ()> {
    encode_mode(tree, true)
}

fn max_fill(v: &Value) -> u64 {
    match v {
        Value::Object(m) => {
            let own = if m.get("t").and_then(|t| t.as_str()) == Some("BufferFill") { m.get("n").and_then(|n| n.as_u64()).unwrap_or(0) } else { 0 };
            m.values().map(max_fill).fold(own, u64::max)
        }
        Value::Array(a) => a.iter().map(max_fill).fold(0, u64::max),
        _ => 0,
    }
}

/// native: every node is the crate's own object; otherwise every child is a `Node` wrapper
pub fn encode_mode(tree: &Value, native: bool) -> Result<Vec<u8>, ()> {
    encode_shared(tree, native, false)
}

pub fn encode_shared(tree: &Value, native: bool, share: bool) -> Result<Vec<u8>, ()> {
    let mut arena = if share { Arena::sharing() } else { Arena::new() };
    let r = guarded(|| {
        let o = build(tree, native, &mut arena);
        // objects of hundreds of MiB always into a vector (a byte-at-a-time sink would take minutes)
        if max_fill(tree) > (16 << 20) {
            let mut v = Vec::new();
            o.to_aml_bytes(&mut v);
            v
        } else {
            ser(o)
        }
    });
    arena.free();
    r
}

/// {"fam":"aml","tree":..,"arities":[..]}: one event with the bytes the tree serialises to.
/// Large outputs may be summarised (`head`/`tail`/`len`) when the program asks for it.
pub fn exec(run: u64, prog: &Value, out: &mut Out) {
    let tree = get(prog, "tree");
    let r = encode_shared(tree, prog.get("native").map(bool_of).unwrap_or(true), prog.get("share").map(bool_of).unwrap_or(false));
    let (bytes, panicked) = match r {
        Ok(b) => (b, false),
        Err(()) => (vec![], true),
    };
    let mut e = json!({"ev":"aml","run":run,"tree":tree,"arities":prog.get("arities").cloned().unwrap_or(json!([])),"panic":panicked});
    if let Some(tag) = prog.get("tag") {
        e["tag"] = tag.clone();
    }
    if prog.get("summary").map(bool_of).unwrap_or(false) {
        // body too large to ship: first 16 bytes (opcode + PkgLength + start of body) and the total length
        e["len"] = json!(bytes.len() as u64);
        e["head"] = jbytes(&bytes[..bytes.len().min(16)]);
        e["tail"] = jbytes(&bytes[bytes.len() - bytes.len().min(16)..]);
        // number of bytes at the end that equal the last byte (the filler blob is the last thing in these objects)
        let last = bytes.last().copied().unwrap_or(0);
        e["tail_run"] = json!(bytes.iter().rev().take_while(|b| **b == last).count() as u64);
    } else {
        e["bytes"] = jbytes(&bytes);
    }
    out.emit(e);
}

/// {"fam":"alt","a":tree,"b":tree}: two construction paths for the same object (C15).
pub fn exec_alt(run: u64, prog: &Value, out: &mut Out) {
    let ra = encode(get(prog, "a"));
    let rb = encode(get(prog, "b"));
    let summary = prog.get("summary").map(bool_of).unwrap_or(false);
    let mut e = json!({"ev":"alt","run":run,"a":if summary { json!({}) } else { get(prog, "a").clone() },
        "what":prog.get("what").cloned().unwrap_or(json!("")),"panic_a":ra.is_err(),"panic_b":rb.is_err()});
    let (ba, bb) = (ra.unwrap_or_default(), rb.unwrap_or_default());
    if summary {
        // only the generic comparison material: lengths, first differing position, heads
        let fd = ba.iter().zip(bb.iter()).position(|(x, y)| x != y).map(|p| p as i64).unwrap_or(if ba.len() == bb.len() { -1 } else { ba.len().min(bb.len()) as i64 });
        e["len_a"] = json!(ba.len() as u64);
        e["len_b"] = json!(bb.len() as u64);
        e["first_diff"] = json!(fd);
        e["head_a"] = jbytes(&ba[..ba.len().min(16)]);
        e["head_b"] = jbytes(&bb[..bb.len().min(16)]);
        e["summary"] = json!(true);
    } else {
        e["bytes_a"] = jbytes(&ba);
        e["bytes_b"] = jbytes(&bb);
    }
    out.emit(e);
}

/// {"fam":"pkglen","ns":[..],"incl":bool}: the private PkgLength encoder through the cfg pass-through, batched.
pub fn exec_pkglen(run: u64, prog: &Value, out: &mut Out) {
    let incl = bool_of(get(prog, "incl"));
    let ns: Vec<u64> = list(prog, "ns").iter().map(u64_of).collect();
    let mut outs = Vec::new();
    let mut panics = Vec::new();
    for n in &ns {
        match guarded(|| aml::verif_create_pkg_length(*n as usize, incl)) {
            Ok(b) => {
                outs.push(jbytes(&b));
                panics.push(json!(false));
            }
            Err(()) => {
                outs.push(json!([]));
                panics.push(json!(true));
            }
        }
    }
    // lengths beyond 2^31 travel as little-endian byte strings ("wide"); none of them fits a PkgLength
    let wide: Vec<u64> = prog.get("wide").map(|w| w.as_array().expect("wide").iter().map(u64_of).collect()).unwrap_or_default();
    let mut wouts = Vec::new();
    let mut wpanics = Vec::new();
    for n in &wide {
        match guarded(|| aml::verif_create_pkg_length(*n as usize, incl)) {
            Ok(b) => {
                wouts.push(jbytes(&b));
                wpanics.push(json!(false));
            }
            Err(()) => {
                wouts.push(json!([]));
                wpanics.push(json!(true));
            }
        }
    }
    out.emit(json!({"ev":"pkglen","run":run,"incl":incl,"ns":ns,"outs":outs,"panics":panics,
        "wide":prog.get("wide").cloned().unwrap_or(json!([])),"wouts":wouts,"wpanics":wpanics}));
}

/// {"fam":"ints","vals":[[8 LE bytes]..]}: every value through every integer type that can carry it.
pub fn exec_ints(run: u64, prog: &Value, out: &mut Out) {
    let vals: Vec<u64> = list(prog, "vals").iter().map(u64_of).collect();
    let enc = |a: &dyn Aml| {
        let mut v = Vec::new();
        a.to_aml_bytes(&mut v);
        jbytes(&v)
    };
    // the same constants into a sink that implements nothing but byte(): the wide pushes then go through the trait's
    // default methods
    struct ByteOnly(Vec<u8>);
    impl AmlSink for ByteOnly {
        fn byte(&mut self, b: u8) {
            self.0.push(b)
        }
    }
    let encb = |a: &dyn Aml| {
        let mut s = ByteOnly(Vec::new());
        a.to_aml_bytes(&mut s);
        jbytes(&s.0)
    };
    let (mut b16, mut b32, mut b64, mut bus) = (Vec::new(), Vec::new(), Vec::new(), Vec::new());
    for v in &vals {
        b16.push(if *v <= u16::MAX as u64 { encb(&(*v as u16)) } else { json!([]) });
        b32.push(if *v <= u32::MAX as u64 { encb(&(*v as u32)) } else { json!([]) });
        b64.push(encb(v));
        bus.push(encb(&(*v as usize)));
    }
    let mut o8 = Vec::new();
    let mut o16 = Vec::new();
    let mut o32 = Vec::new();
    let mut o64 = Vec::new();
    let mut ous = Vec::new();
    for v in &vals {
        o8.push(if *v <= u8::MAX as u64 { enc(&(*v as u8)) } else { json!([]) });
        o16.push(if *v <= u16::MAX as u64 { enc(&(*v as u16)) } else { json!([]) });
        o32.push(if *v <= u32::MAX as u64 { enc(&(*v as u32)) } else { json!([]) });
        o64.push(enc(v));
        ous.push(enc(&(*v as usize)));
    }
    out.emit(json!({"ev":"ints","run":run,"vals":get(prog, "vals"),"u8":o8,"u16":o16,"u32":o32,"u64":o64,"usize":ous,
        "u16_bytesink":b16,"u32_bytesink":b32,"u64_bytesink":b64,"usize_bytesink":bus}));
}

/// {"fam":"strs","what":"path"|"eisa"|"uuid","strs":[[chars]..]}: batched string-taking constructors.
pub fn exec_strs(run: u64, prog: &Value, out: &mut Out) {
    let what = str_of(get(prog, "what"));
    let mut outs = Vec::new();
    let mut panics = Vec::new();
    for s in list(prog, "strs") {
        let st = String::from_utf8_lossy(&bytes_of(s)).to_string();
        let r = guarded(|| {
            let mut v = Vec::new();
            match what {
                "path" => aml::Path::new(&st).to_aml_bytes(&mut v),
                "path_from" => {
                    let p: aml::Path = st.as_str().into();
                    p.to_aml_bytes(&mut v)
                }
                "eisa" => aml::EISAName::new(&st).to_aml_bytes(&mut v),
                "uuid" => aml::Uuid::new(&st).to_aml_bytes(&mut v),
                w => panic!("strs what {w}"),
            }
            v
        });
        match r {
            Ok(b) => {
                outs.push(jbytes(&b));
                panics.push(json!(false));
            }
            Err(()) => {
                outs.push(json!([]));
                panics.push(json!(true));
            }
        }
    }
    out.emit(json!({"ev":"strs","run":run,"what":what,"strs":get(prog, "strs"),"outs":outs,"panics":panics}));
}

// ------------------------------------------------------------------------------------------------
// Sweeps of big finite domains: generic, ACPI-agnostic digests of the real encoder's outputs per chunk
// (the same arithmetic as spec/Digest.tla; nothing here knows what the outputs should be).
const P1: u64 = 32749;
const P2: u64 = 32719;
const P3: u64 = 32713;
fn h1(o: &[u8]) -> u64 {
    let mut a = (31 * o.len() as u64) % P1;
    for (j, b) in o.iter().enumerate() {
        a = (a + (j as u64 + 1) * *b as u64) % P1;
    }
    a
}
fn h2(o: &[u8]) -> u64 {
    let mut a = (17 * o.len() as u64) % P2;
    for (j, b) in o.iter().enumerate() {
        a = (a + (2 * (j as u64 + 1) + 1) * *b as u64) % P2;
    }
    a
}

/// {"fam":"sweep","what":W,"bases":[..],"n":N}: for each base one event with the digests of outputs k = 0..N-1.
pub fn exec_sweep(run: u64, prog: &Value, out: &mut Out) {
    let what = str_of(get(prog, "what"));
    let n = u64_of(get(prog, "n"));
    for basev in list(prog, "bases") {
        let base = u64_of(basev);
        let r = guarded(|| {
            let mut d = [0u64; 3];
            let mut variants: Vec<[u64; 3]> = Vec::new();
            let carriers: &[&str] = if what == "u32" { &["u32", "u64", "usize"] } else { &[""] };
            for carrier in carriers {
                d = [0, 0, 0];
                let mut buf: Vec<u8> = Vec::with_capacity(16);
                for k in 0..n {
                    buf.clear();
                    match what {
                        "pkglen_incl" => buf.extend_from_slice(&aml::verif_create_pkg_length((base + k) as usize, true)),
                        "pkglen_excl" => buf.extend_from_slice(&aml::verif_create_pkg_length((base + k) as usize, false)),
                        "u32" => {
                            let v = base * 65536 + k;
                            match *carrier {
                                "u32" => (v as u32).to_aml_bytes(&mut buf),
                                "u64" => v.to_aml_bytes(&mut buf),
                                _ => (v as usize).to_aml_bytes(&mut buf),
                            }
                        }
                        "eisa" => {
                            let hex = b"0123456789ABCDEF";
                            let id = [
                                b'A' + (base / 676) as u8, b'A' + ((base / 26) % 26) as u8, b'A' + (base % 26) as u8,
                                hex[((k >> 12) & 15) as usize], hex[((k >> 8) & 15) as usize], hex[((k >> 4) & 15) as usize], hex[(k & 15) as usize],
                            ];
                            aml::EISAName::new(std::str::from_utf8(&id).unwrap()).to_aml_bytes(&mut buf)
                        }
                        w => panic!("sweep {w}"),
                    }
                    let (a, b) = (h1(&buf), h2(&buf));
                    d[0] = (d[0] + ((k % 251) + 1) * a) % P1;
                    d[1] = (d[1] + ((k % 241) + 1) * b) % P2;
                    d[2] = (d[2] + (a * b) % P3) % P3;
                }
                variants.push(d);
            }
            variants
        });
        match r {
            Ok(vs) => out.emit(json!({"ev":"sweep","run":run,"what":what,"base":base,"n":n,"ds":vs,"panic":false})),
            Err(()) => out.emit(json!({"ev":"sweep","run":run,"what":what,"base":base,"n":n,"ds":[],"panic":true})),
        }
    }
}

/// {"fam":"pb","ops":[{"op":"add","tree":..}|{"op":"push","d":[..],"via":"byte|word|dword|qword|vec"}]}:
/// the PackageBuilder state machine, serialised after every operation.
pub fn exec_pb(run: u64, prog: &Value, out: &mut Out) {
    let mut pb = aml::PackageBuilder::new();
    let ser = |pb: &aml::PackageBuilder| {
        guarded(|| {
            let mut v = Vec::new();
            pb.to_aml_bytes(&mut v);
            v
        })
    };
    let b0 = ser(&pb);
    out.emit(json!({"ev":"pb_new","run":run,"bytes":jbytes(&b0.clone().unwrap_or_default()),"panic":b0.is_err()}));
    for op in list(prog, "ops") {
        match str_of(get(op, "op")) {
            "add" => {
                let tree = get(op, "tree");
                let elem = encode(tree).unwrap_or_default(); // the element serialised on its own (vector sink)
                let r = guarded(|| if run % 2 == 0 { pb.add_element(&NativeNode(tree.clone())) } else { pb.add_element(&Node(tree.clone())) });
                let b = ser(&pb);
                let panicked = r.is_err() || b.is_err();
                out.emit(json!({"ev":"pb_add","run":run,"tree":tree,"elem":jbytes(&elem),"bytes":jbytes(&b.clone().unwrap_or_default()),
                    "panic":panicked,"add_panic":r.is_err(),"ser_panic":b.is_err()}));
                if b.is_err() {
                    return; // the builder itself can no longer be serialised (e.g. 256 elements): end of this program
                }
            }
            "push" => {
                let d = bytes_of(get(op, "d"));
                let r = guarded(|| match str_of(get(op, "via")) {
                    "byte" => d.iter().for_each(|x| AmlSink::byte(&mut pb, *x)),
                    "word" => AmlSink::word(&mut pb, u16::from_le_bytes([d[0], d[1]])),
                    "dword" => AmlSink::dword(&mut pb, u32::from_le_bytes([d[0], d[1], d[2], d[3]])),
                    "qword" => AmlSink::qword(&mut pb, u64::from_le_bytes(d.clone().try_into().unwrap())),
                    _ => AmlSink::vec(&mut pb, &d),
                });
                let b = ser(&pb);
                let panicked = r.is_err() || b.is_err();
                out.emit(json!({"ev":"pb_push","run":run,"d":jbytes(&d),"bytes":jbytes(&b.unwrap_or_default()),"panic":panicked}));
                if panicked {
                    return;
                }
            }
            o => panic!("pb op {o}"),
        }
    }
}
