//! Family "sub" (C11, C04 extras): a single sub-structure built by its constructor and a sequence of
//! builder calls, serialised stand-alone after every prefix of the call sequence.
//! {"fam":"sub","st":"gicc","a":{..},"calls":[..],"kind":"PPTT","pre":[ops..]}  -- `pre` runs on a scratch
//! table of `kind` to obtain the handles that reference-taking calls need.
use crate::fam_table::{apply, new_table};
use crate::structs::*;
use crate::util::*;
use acpi_tables::Aml;
use serde_json::{json, Value};

pub fn mk(st: &str, e: &Value, hs: &Hs) -> Box<dyn Aml> {
    match st {
        "lapic" => Box::new(mk_lapic(e)),
        "ioapic" => Box::new(mk_ioapic(e)),
        "gicc" => Box::new(mk_gicc(e)),
        "gicd" => Box::new(mk_gicd(e)),
        "gicmsi" => Box::new(mk_gicmsi(e)),
        "gicr" => Box::new(mk_gicr(e)),
        "gicits" => Box::new(mk_gicits(e)),
        "rintc" => Box::new(mk_rintc(e)),
        "imsic" => Box::new(mk_imsic(e)),
        "aplic" => Box::new(mk_aplic(e)),
        "plic" => Box::new(mk_plic(e)),
        "memaff" => Box::new(mk_memaff(e)),
        "geninit" => Box::new(mk_geninit(e)),
        "rintcaff" => Box::new(mk_rintcaff(e)),
        "mpda" => Box::new(mk_mpda(e)),
        "sllbi" => Box::new(mk_sllbi(e)),
        "msci" => Box::new(mk_msci(e)),
        "proc" => Box::new(mk_proc(e, hs)),
        "cache" => Box::new(mk_cache(e, hs)),
        "cmo" => Box::new(mk_cmo(e)),
        // the stand-alone public constructors of the RHCT nodes the table otherwise builds itself
        "isa" => Box::new(acpi_tables::rhct::IsaStringNode::new(leak_str(get(get(e, "a"), "str")))),
        "mmu" => Box::new(acpi_tables::rhct::MmuNode::new(mmu_scheme(e))),
        "hart" => Box::new(mk_hart(e, hs)),
        "iommu" => Box::new(mk_iommu(e)),
        "rc" => Box::new(mk_rc(e, hs)),
        "plat" => Box::new(mk_plat(e, hs)),
        "pcirange" => Box::new(mk_pcirange(e, hs)),
        "mmioep" => Box::new(mk_mmioep(e, hs)),
        "vpciiommu" => Box::new(mk_vpciiommu(e)),
        "vmmioiommu" => Box::new(mk_vmmioiommu(e)),
        "chbs" => Box::new(mk_chbs(e)),
        "cfmws" => Box::new(mk_cfmws(e)),
        "cxims" => Box::new(mk_cxims(e)),
        "rdpas" => Box::new(mk_rdpas(e)),
        "aerroot" => Box::new(mk_aerroot(e)),
        "aerdev" => Box::new(mk_aerdev(e)),
        "aerbridge" => Box::new(mk_aerbridge(e)),
        "ghes" => Box::new(mk_ghes(e)),
        "ghesv2" => Box::new(mk_ghesv2(e)),
        "notif" => Box::new(mk_notif(&json!({"type": get(get(e, "a"), "type"), "calls": e.get("calls").cloned().unwrap_or(json!([]))}))),
        "qos" => Box::new(mk_qos(e)),
        "gas" => Box::new(mk_gas(get(e, "a"))),
        "gedata" => Box::new(mk_gedata(e)),
        "gestatus" => {
            use acpi_tables::hest::{ErrorSeverity, GenericErrorStatus};
            let a = get(e, "a");
            let sev = match str_of(get(a, "severity")) {
                "Recoverable" => ErrorSeverity::Recoverable,
                "Fatal" => ErrorSeverity::Fatal,
                "Correctable" => ErrorSeverity::Correctable,
                "None" => ErrorSeverity::None,
                x => panic!("severity {x}"),
            };
            Box::new(GenericErrorStatus::new(u32_of(get(a, "cc")), u32_of(get(a, "uc")), sev))
        }
        "gas_pci" => {
            let a = get(e, "a");
            use acpi_tables::gas::{AccessSize, GAS};
            let access = match str_of(get(a, "access")) {
                "Undefined" => AccessSize::Undefined,
                "ByteAccess" => AccessSize::ByteAccess,
                "WordAccess" => AccessSize::WordAccess,
                "DwordAccess" => AccessSize::DwordAccess,
                "QwordAccess" => AccessSize::QwordAccess,
                x => panic!("access {x}"),
            };
            Box::new(GAS::new_pci_config(u8_of(get(a, "width")), access, u8_of(get(a, "device")), u8_of(get(a, "function")), u16_of(get(a, "register"))))
        }
        "gaddr" => {
            // sdt::GenericAddress has a raw in-memory form only
            use acpi_tables::sdt::GenericAddress as GA;
            use zerocopy::IntoBytes;
            let a = get(e, "a");
            let io = str_of(get(a, "kind")) == "io";
            let size = u64_of(get(a, "size"));
            let g = match (io, size) {
                (true, 1) => GA::io_port_address::<u8>(u16_of(get(a, "addr"))),
                (true, 2) => GA::io_port_address::<u16>(u16_of(get(a, "addr"))),
                (true, 4) => GA::io_port_address::<u32>(u16_of(get(a, "addr"))),
                (true, 8) => GA::io_port_address::<u64>(u16_of(get(a, "addr"))),
                (false, 1) => GA::mmio_address::<u8>(u64_of(get(a, "addr"))),
                (false, 2) => GA::mmio_address::<u16>(u64_of(get(a, "addr"))),
                (false, 4) => GA::mmio_address::<u32>(u64_of(get(a, "addr"))),
                (false, 8) => GA::mmio_address::<u64>(u64_of(get(a, "addr"))),
                _ => panic!("gaddr size"),
            };
            Box::new(Raw(g.as_bytes().to_vec()))
        }
        x => panic!("unknown structure {x}"),
    }
}

/// Raw in-memory bytes of a structure that has no serialiser of its own.
struct Raw(Vec<u8>);
impl Aml for Raw {
    fn to_aml_bytes(&self, sink: &mut dyn acpi_tables::AmlSink) {
        sink.vec(&self.0)
    }
}

fn mk_gedata(e: &Value) -> acpi_tables::hest::GenericErrorData {
    use acpi_tables::hest::{ErrorSeverity, GenericErrorData};
    let a = get(e, "a");
    let sev = match str_of(get(a, "severity")) {
        "Recoverable" => ErrorSeverity::Recoverable,
        "Fatal" => ErrorSeverity::Fatal,
        "Correctable" => ErrorSeverity::Correctable,
        "None" => ErrorSeverity::None,
        x => panic!("severity {x}"),
    };
    let mut d = GenericErrorData::new(sev);
    d.section_type = u16_of(get(a, "section_type"));
    d.revision = u16_of(get(a, "revision"));
    d.validation = u8_of(get(a, "validation"));
    d.flags = u8_of(get(a, "flags"));
    d.error_data_length = u32_of(get(a, "error_data_length"));
    d.fru_id = arr_n(get(a, "fru_id"));
    d.fru_text = arr_n(get(a, "fru_text"));
    d.timestamp = arr_n(get(a, "timestamp"));
    let payload = bytes_of(get(a, "data"));
    if !payload.is_empty() {
        d.add_data(Box::new(acpi_tables::aml::Name::new_field_name(std::str::from_utf8(&payload).expect("ascii payload"))));
    }
    d
}

pub fn exec(run: u64, prog: &Value, out: &mut Out) {
    let st = str_of(get(prog, "st"));
    let a = prog.get("a").cloned().unwrap_or(json!({}));
    let calls = list(prog, "calls");
    // scratch table for handles
    let mut hs = Hs(Vec::new());
    let mut rvals: Vec<Value> = Vec::new();
    if has(prog, "pre") {
        let kind = str_of(get(prog, "kind"));
        let c = json!({"oem_id":[1,2,3,4,5,6],"oem_table_id":[1,2,3,4,5,6,7,8],"oem_rev":[1,0,0,0],"timebase":[0,0,0,0,0,0,0,0]});
        let mut t = new_table(kind, &c);
        let pre = list(prog, "pre");
        for (i, op) in pre.iter().enumerate() {
            let h = apply(&mut t, &c, &pre[..i], op, &hs);
            rvals.push(match h.value() {
                Some(v) => le(v, 4),
                None => json!([]),
            });
            hs.0.push(h);
        }
    }
    let every_prefix = prog.get("every_prefix").map(bool_of).unwrap_or(true);
    for k in 0..=calls.len() {
        if !every_prefix && k != calls.len() {
            continue;
        }
        let e = json!({"a": a, "calls": calls[..k].to_vec(), "probe": prog.get("probe").cloned().unwrap_or(json!(false))});
        let r = guarded(|| {
            let obj = mk(st, &e, &hs);
            let mut v = Vec::new();
            obj.to_aml_bytes(&mut v);
            v
        });
        let (img, panicked) = match r {
            Ok(v) => (v, false),
            Err(()) => (vec![], true),
        };
        out.emit(json!({"ev":"sub","run":run,"st":st,"e":{"a":a,"calls":calls},"k":k,"first":k == 0 || !every_prefix,
            "R":rvals,"img":jbytes(&img),"panic":panicked}));
        if panicked {
            break;
        }
    }
}
