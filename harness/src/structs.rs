//! Construction of the crate's table sub-structures from JSON descriptions.
//! Purely structural: every JSON argument is handed to the public constructor / builder call of
//! the same name.  Scalars arrive as little-endian byte arrays of the API width.
use crate::util::*;
use acpi_tables::gas::{AccessSize, AddressSpace, GAS};
use acpi_tables::{cedt, hest, hmat, madt, pptt, rhct, rimt, rqsc, srat, viot};
use serde_json::Value;

/// Handles returned by earlier add operations of the same table, by 1-based operation index.
pub enum H {
    None,
    Proc(pptt::ProcessorHandle),
    Cache(pptt::CacheHandle),
    Isa(rhct::IsaStringHandle),
    Cmo(rhct::CmoHandle),
    Iommu(rimt::IommuOffset),
    Xlat(viot::TranslationHandle),
}

fn debug_num(s: String) -> u64 {
    // "ProcessorHandle(36)" -> 36
    let a = s.find('(').expect("debug handle");
    let b = s.rfind(')').expect("debug handle");
    s[a + 1..b].parse().expect("debug handle number")
}

impl H {
    /// The handle's value as the crate exposes it (Debug for PPTT/RHCT, cfg accessor for RIMT/VIOT).
    pub fn value(&self) -> Option<u64> {
        match self {
            H::None => None,
            H::Proc(h) => Some(debug_num(format!("{:?}", h))),
            H::Cache(h) => Some(debug_num(format!("{:?}", h))),
            H::Isa(h) => Some(debug_num(format!("{:?}", h))),
            H::Cmo(h) => Some(debug_num(format!("{:?}", h))),
            H::Iommu(h) => Some(h.verif_value() as u64),
            H::Xlat(h) => Some(h.verif_value() as u64),
        }
    }
}

pub struct Hs(pub Vec<H>);
impl Hs {
    fn at(&self, v: &Value) -> &H {
        let i = u64_of(v) as usize;
        assert!(i >= 1 && i <= self.0.len(), "handle reference {i} out of range");
        &self.0[i - 1]
    }
    pub fn proc_(&self, v: &Value) -> &pptt::ProcessorHandle {
        match self.at(v) {
            H::Proc(h) => h,
            _ => panic!("reference is not a processor handle"),
        }
    }
    pub fn cache(&self, v: &Value) -> &pptt::CacheHandle {
        match self.at(v) {
            H::Cache(h) => h,
            _ => panic!("reference is not a cache handle"),
        }
    }
    pub fn isa(&self, v: &Value) -> &rhct::IsaStringHandle {
        match self.at(v) {
            H::Isa(h) => h,
            _ => panic!("reference is not an ISA string handle"),
        }
    }
    pub fn cmo(&self, v: &Value) -> &rhct::CmoHandle {
        match self.at(v) {
            H::Cmo(h) => h,
            _ => panic!("reference is not a CMO handle"),
        }
    }
    pub fn iommu(&self, v: &Value) -> rimt::IommuOffset {
        match self.at(v) {
            H::Iommu(h) => *h,
            _ => panic!("reference is not an IOMMU offset"),
        }
    }
    pub fn xlat(&self, v: &Value) -> &viot::TranslationHandle {
        match self.at(v) {
            H::Xlat(h) => h,
            _ => panic!("reference is not a translation handle"),
        }
    }
}

/// "probe": observe the partially built entry between its builder calls (serialise it into a scratch sink): an
/// observation must not change what is finally emitted.
fn probe(e: &Value, o: &dyn acpi_tables::Aml) {
    if e.get("probe").map(bool_of).unwrap_or(false) {
        // a partially built entry need not be serialisable yet (a fixed-memory window before its last target): a
        // refusal here is not the operation's
        let _ = guarded(|| {
            let mut v = Vec::new();
            o.to_aml_bytes(&mut v);
            acpi_tables::u8sum(o)
        });
    }
}
fn calls(e: &Value) -> &[Value] {
    list(e, "calls")
}
fn cname(c: &Value) -> &str {
    str_of(get(c, "o"))
}
fn carg<'a>(c: &'a Value, k: &str) -> &'a Value {
    get(get(c, "a"), k)
}

pub fn mk_gas(g: &Value) -> GAS {
    let acc = |s: &str| match s {
        "Undefined" => AccessSize::Undefined,
        "ByteAccess" => AccessSize::ByteAccess,
        "WordAccess" => AccessSize::WordAccess,
        "DwordAccess" => AccessSize::DwordAccess,
        "QwordAccess" => AccessSize::QwordAccess,
        x => panic!("access {x}"),
    };
    if has(g, "device") {
        // the other public constructor: PCI configuration space by device / function / register
        return GAS::new_pci_config(u8_of(get(g, "width")), acc(str_of(get(g, "access"))), u8_of(get(g, "device")), u8_of(get(g, "function")), u16_of(get(g, "register")));
    }
    let space = match str_of(get(g, "space")) {
        "SystemMemory" => AddressSpace::SystemMemory,
        "SystemIo" => AddressSpace::SystemIo,
        "PciConfigSpace" => AddressSpace::PciConfigSpace,
        "EmbeddedController" => AddressSpace::EmbeddedController,
        "Smbus" => AddressSpace::Smbus,
        "SystemCmos" => AddressSpace::SystemCmos,
        "PciBarTarget" => AddressSpace::PciBarTarget,
        "Ipmi" => AddressSpace::Ipmi,
        "GeneralPursposeIo" => AddressSpace::GeneralPursposeIo,
        "GenericSerialBus" => AddressSpace::GenericSerialBus,
        "PlatformCommunicationsChannel" => AddressSpace::PlatformCommunicationsChannel,
        "PlatformRuntimeMechanism" => AddressSpace::PlatformRuntimeMechanism,
        "FunctionalFixedHardware" => AddressSpace::FunctionalFixedHardware,
        x => panic!("space {x}"),
    };
    let access = match str_of(get(g, "access")) {
        "Undefined" => AccessSize::Undefined,
        "ByteAccess" => AccessSize::ByteAccess,
        "WordAccess" => AccessSize::WordAccess,
        "DwordAccess" => AccessSize::DwordAccess,
        "QwordAccess" => AccessSize::QwordAccess,
        x => panic!("access {x}"),
    };
    GAS::new(space, u8_of(get(g, "width")), u8_of(get(g, "offset")), access, u64_of(get(g, "addr")))
}

// ------------------------------------------------------------------------------------------ MADT
fn enabled_status(s: &str) -> madt::EnabledStatus {
    match s {
        "Enabled" => madt::EnabledStatus::Enabled,
        "Disabled" => madt::EnabledStatus::Disabled,
        "DisabledOnlineCapable" => madt::EnabledStatus::DisabledOnlineCapable,
        x => panic!("EnabledStatus {x}"),
    }
}
fn trigger(s: &str) -> madt::Trigger {
    match s {
        "Edge" => madt::Trigger::Edge,
        "Level" => madt::Trigger::Level,
        x => panic!("Trigger {x}"),
    }
}
pub fn mk_lapic(e: &Value) -> madt::ProcessorLocalApic {
    let a = get(e, "a");
    madt::ProcessorLocalApic::new(u8_of(get(a, "uid")), u8_of(get(a, "apic_id")), enabled_status(str_of(get(a, "status"))))
}
pub fn mk_ioapic(e: &Value) -> madt::IoApic {
    let a = get(e, "a");
    madt::IoApic::new(u8_of(get(a, "id")), u32_of(get(a, "addr")), u32_of(get(a, "gsi_base")))
}
pub fn mk_gicc(e: &Value) -> madt::Gicc {
    let a = get(e, "a");
    let mut g = madt::Gicc::new(enabled_status(str_of(get(a, "status"))));
    for c in calls(e) {
        probe(e, &g);
        g = match cname(c) {
            "performance_interrupt" => g.performance_interrupt(u32_of(carg(c, "gsi")), trigger(str_of(carg(c, "trigger")))),
            "maintenance_interrupt" => g.maintenance_interrupt(u32_of(carg(c, "gsi")), trigger(str_of(carg(c, "trigger")))),
            "cpu_interface_number" => g.cpu_interface_number(u32_of(carg(c, "v"))),
            "acpi_processor_uid" => g.acpi_processor_uid(u32_of(carg(c, "v"))),
            "parking_protocol_version" => g.parking_protocol_version(u32_of(carg(c, "v"))),
            "parked_address" => g.parked_address(u64_of(carg(c, "v"))),
            "base_address" => g.base_address(u64_of(carg(c, "v"))),
            "virtual_registers" => g.virtual_registers(u64_of(carg(c, "v"))),
            "control_block_registers" => g.control_block_registers(u64_of(carg(c, "v"))),
            "redistributor_base" => g.redistributor_base(u64_of(carg(c, "v"))),
            "mpidr" => g.mpidr(u64_of(carg(c, "v"))),
            "power_efficiency_class" => g.power_efficiency_class(u8_of(carg(c, "v"))),
            "overflow_interrupt" => g.overflow_interrupt(u16_of(carg(c, "v"))),
            "trbe_interrupt" => g.trbe_interrupt(u16_of(carg(c, "v"))),
            x => panic!("gicc call {x}"),
        };
    }
    g
}
pub fn mk_gicd(e: &Value) -> madt::Gicd {
    let a = get(e, "a");
    let v = match str_of(get(a, "version")) {
        "Unspecified" => madt::GicVersion::Unspecified,
        "GICv1" => madt::GicVersion::GICv1,
        "GICv2" => madt::GicVersion::GICv2,
        "GICv3" => madt::GicVersion::GICv3,
        "GICv4" => madt::GicVersion::GICv4,
        x => panic!("GicVersion {x}"),
    };
    madt::Gicd::new(u32_of(get(a, "id")), u64_of(get(a, "base")), v)
}
pub fn mk_gicmsi(e: &Value) -> madt::GicMsi {
    let mut g = madt::GicMsi::new();
    for c in calls(e) {
        probe(e, &g);
        g = match cname(c) {
            "gic_msi_frame_id" => g.gic_msi_frame_id(u32_of(carg(c, "v"))),
            "base_addr" => g.base_addr(u64_of(carg(c, "v"))),
            "spi_count_and_base" => g.spi_count_and_base(u16_of(carg(c, "count")), u16_of(carg(c, "base"))),
            x => panic!("gicmsi call {x}"),
        };
    }
    g
}
pub fn mk_gicr(e: &Value) -> madt::Gicr {
    let a = get(e, "a");
    madt::Gicr::new(u64_of(get(a, "base")), u32_of(get(a, "length")))
}
pub fn mk_gicits(e: &Value) -> madt::GicIts {
    let a = get(e, "a");
    madt::GicIts::new(u32_of(get(a, "id")), u64_of(get(a, "base")))
}
pub fn mk_rintc(e: &Value) -> madt::RINTC {
    let a = get(e, "a");
    let st = match str_of(get(a, "status")) {
        "Enabled" => madt::HartStatus::Enabled,
        "Disabled" => madt::HartStatus::Disabled,
        "OnlineCapable" => madt::HartStatus::OnlineCapable,
        x => panic!("HartStatus {x}"),
    };
    madt::RINTC::new(st, u64_of(get(a, "hart")), u32_of(get(a, "uid")), u32_of(get(a, "ext_id")), u64_of(get(a, "imsic_base")), u32_of(get(a, "imsic_size")))
}
pub fn mk_imsic(e: &Value) -> madt::IMSIC {
    let a = get(e, "a");
    madt::IMSIC::new(u16_of(get(a, "s_ids")), u16_of(get(a, "g_ids")), u8_of(get(a, "guest_bits")), u8_of(get(a, "hart_bits")), u8_of(get(a, "group_bits")), u8_of(get(a, "group_shift")))
}
pub fn mk_aplic(e: &Value) -> madt::APLIC {
    let a = get(e, "a");
    madt::APLIC::new(u8_of(get(a, "id")), arr_n(get(a, "hw_id")), u16_of(get(a, "idcs")), u32_of(get(a, "gsi_base")), u64_of(get(a, "addr")), u32_of(get(a, "size")), u16_of(get(a, "srcs")))
}
pub fn mk_plic(e: &Value) -> madt::PLIC {
    let a = get(e, "a");
    madt::PLIC::new(u8_of(get(a, "id")), arr_n(get(a, "hw_id")), u16_of(get(a, "srcs")), u16_of(get(a, "max_prio")), u32_of(get(a, "size")), u64_of(get(a, "addr")), u32_of(get(a, "gsi_base")))
}

// ------------------------------------------------------------------------------------------ SRAT
pub fn mk_memaff(e: &Value) -> srat::MemoryAffinity {
    let a = get(e, "a");
    let mut m = srat::MemoryAffinity::new(u32_of(get(a, "pxm")), u64_of(get(a, "base")), u64_of(get(a, "length")));
    for c in calls(e) {
        probe(e, &m);
        m = match cname(c) {
            "enabled" => m.enabled(),
            "hotpluggable" => m.hotpluggable(),
            "nonvolatile" => m.nonvolatile(),
            x => panic!("memaff call {x}"),
        };
    }
    m
}
pub fn mk_geninit(e: &Value) -> srat::GenericInitiator {
    let a = get(e, "a");
    let h = get(a, "handle");
    let handle = match str_of(get(h, "t")) {
        // the variants are public: a caller may also write them out instead of going through new_acpi / new_pci
        "acpi" if has(h, "literal") => srat::Handle::Acpi { hid: arr_n(get(h, "hid")), uid: arr_n(get(h, "uid")) },
        "pci" if has(h, "literal") && u8_of(get(h, "dev")) < 32 && u8_of(get(h, "fn")) < 8 => {
            srat::Handle::Pci { segment: u16_of(get(h, "seg")), bus: u8_of(get(h, "bus")), device: u8_of(get(h, "dev")), function: u8_of(get(h, "fn")) }
        }
        "acpi" => srat::Handle::new_acpi(arr_n(get(h, "hid")), arr_n(get(h, "uid"))),
        "pci" => srat::Handle::new_pci(u16_of(get(h, "seg")), u8_of(get(h, "bus")), u8_of(get(h, "dev")), u8_of(get(h, "fn"))),
        x => panic!("handle {x}"),
    };
    let mut g = srat::GenericInitiator::new(u32_of(get(a, "pxm")), handle);
    for c in calls(e) {
        probe(e, &g);
        g = match cname(c) {
            "enabled" => g.enabled(),
            "architectural" => g.architectural(),
            x => panic!("geninit call {x}"),
        };
    }
    g
}
pub fn mk_rintcaff(e: &Value) -> srat::RintcAffinity {
    let a = get(e, "a");
    let mut r = srat::RintcAffinity::new(arr_n(get(a, "uid")), u32_of(get(a, "clock")));
    for c in calls(e) {
        probe(e, &r);
        r = match cname(c) {
            "enabled" => r.enabled(),
            "proximity_domain" => r.proximity_domain(u32_of(carg(c, "v"))),
            x => panic!("rintcaff call {x}"),
        };
    }
    r
}

// ------------------------------------------------------------------------------------------ HMAT
pub fn mk_mpda(e: &Value) -> hmat::MemoryProximityDomain {
    let a = get(e, "a");
    hmat::MemoryProximityDomain::new(u32_of(get(a, "init")), u32_of(get(a, "mem")))
}
pub fn mk_sllbi(e: &Value) -> hmat::SystemLocality {
    let a = get(e, "a");
    let loc = match str_of(get(a, "loc")) {
        "Memory" => hmat::LocalityType::Memory,
        "FirstLevelCache" => hmat::LocalityType::FirstLevelCache,
        "SecondLevelCache" => hmat::LocalityType::SecondLevelCache,
        "ThirdLevelCache" => hmat::LocalityType::ThirdLevelCache,
        x => panic!("LocalityType {x}"),
    };
    let dt = match str_of(get(a, "dtype")) {
        "AccessLatency" => hmat::DataType::AccessLatency,
        "ReadLatency" => hmat::DataType::ReadLatency,
        "WriteLatency" => hmat::DataType::WriteLatency,
        "AccessBandwidth" => hmat::DataType::AccessBandwidth,
        "ReadBandwidth" => hmat::DataType::ReadBandwidth,
        "WriteBandwidth" => hmat::DataType::WriteBandwidth,
        x => panic!("DataType {x}"),
    };
    use hmat::MinTransferSize as M;
    let mts = match str_of(get(a, "mts")) {
        "SizeByteAligned" => M::SizeByteAligned,
        "Size64b" => M::Size64b,
        "Size128b" => M::Size128b,
        "Size256b" => M::Size256b,
        "Size512b" => M::Size512b,
        "Size1k" => M::Size1k,
        "Size2k" => M::Size2k,
        "Size4k" => M::Size4k,
        "Size8k" => M::Size8k,
        "Size16k" => M::Size16k,
        "Size32k" => M::Size32k,
        "Size64k" => M::Size64k,
        x => panic!("MinTransferSize {x}"),
    };
    let mut s = hmat::SystemLocality::new(loc, dt, mts, u64_of(get(a, "base_unit")), u64_of(get(a, "ni")) as usize, u64_of(get(a, "nt")) as usize);
    for c in calls(e) {
        probe(e, &s);
        match cname(c) {
            "non_sequential_transfers" => s.non_sequential_transfers(),
            "minimum_transfer_size_required" => s.minimum_transfer_size_required(),
            "set_initiator_value" => s.set_initiator_value(u64_of(carg(c, "idx")) as usize, u32_of(carg(c, "v"))),
            "set_target_value" => s.set_target_value(u64_of(carg(c, "idx")) as usize, u32_of(carg(c, "v"))),
            "set_entry_value" => s.set_entry_value(u64_of(carg(c, "i")) as usize, u64_of(carg(c, "j")) as usize, u16_of(carg(c, "v"))),
            x => panic!("sllbi call {x}"),
        }
    }
    s
}
pub fn mk_msci(e: &Value) -> hmat::MemorySideCache {
    let a = get(e, "a");
    let lvl = |s: &str| match s {
        "None" => hmat::CacheLevel::None,
        "One" => hmat::CacheLevel::One,
        "Two" => hmat::CacheLevel::Two,
        "Three" => hmat::CacheLevel::Three,
        x => panic!("CacheLevel {x}"),
    };
    let assoc = match str_of(get(a, "assoc")) {
        "None" => hmat::Associativity::None,
        "DirectMapped" => hmat::Associativity::DirectMapped,
        "Complex" => hmat::Associativity::Complex,
        x => panic!("Associativity {x}"),
    };
    let pol = match str_of(get(a, "policy")) {
        "None" => hmat::WritePolicy::None,
        "Writeback" => hmat::WritePolicy::Writeback,
        "Writethrough" => hmat::WritePolicy::Writethrough,
        x => panic!("WritePolicy {x}"),
    };
    let mut m = hmat::MemorySideCache::new(u32_of(get(a, "pxm")), u64_of(get(a, "size")), lvl(str_of(get(a, "total"))), lvl(str_of(get(a, "this"))), assoc, pol, u16_of(get(a, "line")));
    for c in calls(e) {
        probe(e, &m);
        match cname(c) {
            "add_smbios_handle" => m.add_smbios_handle(u16_of(carg(c, "v"))),
            x => panic!("msci call {x}"),
        }
    }
    m
}

// ------------------------------------------------------------------------------------------ PPTT
pub fn mk_proc(e: &Value, hs: &Hs) -> pptt::ProcessorNode {
    let a = get(e, "a");
    let parent = if u64_of(get(a, "parent")) == 0 { None } else { Some(hs.proc_(get(a, "parent"))) };
    let mut p = pptt::ProcessorNode::new(parent, u32_of(get(a, "id")));
    for c in calls(e) {
        probe(e, &p);
        p = match cname(c) {
            "physical" => p.physical(),
            "valid" => p.valid(),
            "thread" => p.thread(),
            "leaf" => p.leaf(),
            "identical" => p.identical(),
            "add_cache" => p.add_cache(hs.cache(carg(c, "ref"))),
            "set_flags" => {
                p.flags = u32_of(carg(c, "v"));
                p
            }
            "set_parent" => {
                p.parent = u32_of(carg(c, "v"));
                p
            }
            "set_id" => {
                p.acpi_processor_id = u32_of(carg(c, "v"));
                p
            }
            x => panic!("proc call {x}"),
        };
    }
    p
}
pub fn mk_cache(e: &Value, hs: &Hs) -> pptt::CacheNode {
    let mut b = pptt::CacheNodeBuilder::default();
    for c in calls(e) {
        b = match cname(c) {
            "next_level" => b.next_level(hs.cache(carg(c, "ref"))),
            "size" => b.size(u32_of(carg(c, "v"))),
            "sets" => b.sets(u32_of(carg(c, "v"))),
            "associativity" => b.associativity(u8_of(carg(c, "v"))),
            "allocation_type" => b.allocation_type(match str_of(carg(c, "v")) {
                "Read" => pptt::AllocationType::Read,
                "Write" => pptt::AllocationType::Write,
                "Both" => pptt::AllocationType::Both,
                x => panic!("AllocationType {x}"),
            }),
            "cache_type" => b.cache_type(match str_of(carg(c, "v")) {
                "Data" => pptt::CacheType::Data,
                "Instruction" => pptt::CacheType::Instruction,
                "Unified" => pptt::CacheType::Unified,
                x => panic!("CacheType {x}"),
            }),
            "write_policy" => b.write_policy(match str_of(carg(c, "v")) {
                "Writeback" => pptt::WritePolicy::Writeback,
                "Writethrough" => pptt::WritePolicy::Writethrough,
                x => panic!("WritePolicy {x}"),
            }),
            "line_size" => b.line_size(u16_of(carg(c, "v"))),
            "id" => b.id(u32_of(carg(c, "v"))),
            x => panic!("cache call {x}"),
        };
    }
    b.to_node()
}

// ------------------------------------------------------------------------------------------ RHCT
pub fn leak_str(v: &Value) -> &'static str {
    let b = bytes_of(v);
    Box::leak(String::from_utf8(b).expect("utf8").into_boxed_str())
}
pub fn mk_cmo(e: &Value) -> rhct::CmoNode {
    let a = get(e, "a");
    rhct::CmoNode::new(u8_of(get(a, "cbom")), u8_of(get(a, "cbop")), u8_of(get(a, "cboz")))
}
pub fn mmu_scheme(e: &Value) -> rhct::VirtualAddressScheme {
    match str_of(get(get(e, "a"), "scheme")) {
        "Sv39" => rhct::VirtualAddressScheme::Sv39,
        "Sv48" => rhct::VirtualAddressScheme::Sv48,
        "Sv57" => rhct::VirtualAddressScheme::Sv57,
        x => panic!("scheme {x}"),
    }
}
pub fn mk_hart(e: &Value, hs: &Hs) -> rhct::HartInfoNode {
    let a = get(e, "a");
    let mut h = rhct::HartInfoNode::new(u32_of(get(a, "uid")), hs.isa(get(a, "isa")));
    for c in calls(e) {
        probe(e, &h);
        h = match cname(c) {
            "with_cmo" => h.with_cmo(hs.cmo(carg(c, "ref"))),
            x => panic!("hart call {x}"),
        };
    }
    h
}

// ------------------------------------------------------------------------------------------ RIMT
fn rimt_pci(p: &Value) -> rimt::PciDevice {
    rimt::PciDevice::new(u16_of(get(p, "seg")), u8_of(get(p, "bus")), u8_of(get(p, "dev")), u8_of(get(p, "fn")))
}
fn idmaps(a: &Value, hs: &Hs) -> Option<Vec<rimt::IdMapping>> {
    if !has(a, "maps") {
        return None;
    }
    Some(
        list(a, "maps")
            .iter()
            .map(|m| {
                rimt::IdMapping::new(u32_of(get(m, "src")), u32_of(get(m, "dst")), u32_of(get(m, "n")), hs.iommu(get(m, "iommu")), bool_of(get(m, "ats")), bool_of(get(m, "pri")), bool_of(get(m, "rciep")))
            })
            .collect(),
    )
}
pub fn mk_iommu(e: &Value) -> rimt::Iommu {
    let a = get(e, "a");
    let wires = if has(a, "wires") {
        Some(list(a, "wires").iter().map(|w| rimt::InterruptWire::new(u32_of(get(w, "num")), bool_of(get(w, "level")), bool_of(get(w, "high")), u16_of(get(w, "aplic")))).collect())
    } else {
        None
    };
    rimt::Iommu::new(
        u16_of(get(a, "id")),
        if has(a, "base") { Some(u64_of(get(a, "base"))) } else { None },
        if has(a, "pci") { Some(rimt_pci(get(a, "pci"))) } else { None },
        if has(a, "pxm") { Some(u32_of(get(a, "pxm"))) } else { None },
        wires,
    )
}
pub fn mk_rc(e: &Value, hs: &Hs) -> rimt::PcieRootComplex {
    let a = get(e, "a");
    rimt::PcieRootComplex::new(u16_of(get(a, "id")), u16_of(get(a, "seg")), bool_of(get(a, "ats")), bool_of(get(a, "pri")), idmaps(a, hs))
}
pub fn mk_plat(e: &Value, hs: &Hs) -> rimt::Platform {
    let a = get(e, "a");
    rimt::Platform::new(u16_of(get(a, "id")), String::from_utf8(bytes_of(get(a, "name"))).expect("utf8"), idmaps(a, hs))
}

// ------------------------------------------------------------------------------------------ VIOT
fn viot_pci(p: &Value) -> viot::PciDevice {
    viot::PciDevice::new(u16_of(get(p, "seg")), u8_of(get(p, "bus")), u8_of(get(p, "dev")), u8_of(get(p, "fn")))
}
pub fn mk_pcirange(e: &Value, hs: &Hs) -> viot::PciRange {
    let a = get(e, "a");
    viot::PciRange::new(viot_pci(get(a, "first")), viot_pci(get(a, "last")), hs.xlat(get(a, "ref")))
}
pub fn mk_mmioep(e: &Value, hs: &Hs) -> viot::MmioEndpoint {
    let a = get(e, "a");
    viot::MmioEndpoint::new(u32_of(get(a, "ep")), u64_of(get(a, "base")), hs.xlat(get(a, "ref")))
}
pub fn mk_vpciiommu(e: &Value) -> viot::VirtIoPciIommu {
    viot::VirtIoPciIommu::new(viot_pci(get(get(e, "a"), "pci")))
}
pub fn mk_vmmioiommu(e: &Value) -> viot::VirtIoMmioIommu {
    viot::VirtIoMmioIommu::new(u64_of(get(get(e, "a"), "base")))
}

// ------------------------------------------------------------------------------------------ CEDT
fn gran(s: &str) -> cedt::InterleaveGranularity {
    use cedt::InterleaveGranularity as G;
    match s {
        "Granularity256b" => G::Granularity256b,
        "Granularity512b" => G::Granularity512b,
        "Granularity1kb" => G::Granularity1kb,
        "Granularity2kb" => G::Granularity2kb,
        "Granularity4kb" => G::Granularity4kb,
        "Granularity8kb" => G::Granularity8kb,
        "Granularity16kb" => G::Granularity16kb,
        x => panic!("granularity {x}"),
    }
}
pub fn mk_chbs(e: &Value) -> cedt::CxlHostBridge {
    let a = get(e, "a");
    let v = match str_of(get(a, "version")) {
        "Cxl1_1" => cedt::CxlVersion::Cxl1_1,
        "Cxl2" => cedt::CxlVersion::Cxl2,
        x => panic!("CxlVersion {x}"),
    };
    cedt::CxlHostBridge::new(u32_of(get(a, "uid")), v, u64_of(get(a, "base")))
}
pub fn mk_cfmws(e: &Value) -> cedt::CxlFixedMemory {
    let a = get(e, "a");
    let arith = match str_of(get(a, "arith")) {
        "Modulo" => cedt::InterleaveArithmetic::Modulo,
        "ModuloXor" => cedt::InterleaveArithmetic::ModuloXor,
        x => panic!("arith {x}"),
    };
    use cedt::InterleaveWays as W;
    let ways = match str_of(get(a, "ways")) {
        "Ways1" => W::Ways1,
        "Ways2" => W::Ways2,
        "Ways4" => W::Ways4,
        "Ways8" => W::Ways8,
        "Ways16" => W::Ways16,
        "Ways3" => W::Ways3,
        "Ways6" => W::Ways6,
        "Ways12" => W::Ways12,
        x => panic!("ways {x}"),
    };
    let mut m = cedt::CxlFixedMemory::new(u64_of(get(a, "base")), u64_of(get(a, "size")), arith, gran(str_of(get(a, "gran"))), ways, u16_of(get(a, "qtg")));
    for t in list(a, "targets") {
        m.add_target(arr_n(t)); // targets supplied up front (stand-alone serialisation requires the full list)
    }
    for c in calls(e) {
        probe(e, &m);
        m = match cname(c) {
            "cxl_type_2_memory" => m.cxl_type_2_memory(),
            "cxl_type_3_memory" => m.cxl_type_3_memory(),
            "volatile" => m.volatile(),
            "persistent" => m.persistent(),
            "fixed_configuration" => m.fixed_configuration(),
            "add_target" => {
                m.add_target(arr_n(carg(c, "v")));
                m
            }
            x => panic!("cfmws call {x}"),
        };
    }
    m
}
pub fn mk_cxims(e: &Value) -> cedt::XorInterleaveMath {
    let a = get(e, "a");
    let mut x = cedt::XorInterleaveMath::new(gran(str_of(get(a, "gran"))));
    for c in calls(e) {
        probe(e, &x);
        match cname(c) {
            "add_xormap" => x.add_xormap(u64_of(carg(c, "v"))),
            o => panic!("cxims call {o}"),
        }
    }
    x
}
pub fn mk_rdpas(e: &Value) -> cedt::PortAssociation {
    let a = get(e, "a");
    let p = match str_of(get(a, "proto")) {
        "CxlIo" => cedt::ProtocolType::CxlIo,
        "CxlMem" => cedt::ProtocolType::CxlMem,
        x => panic!("proto {x}"),
    };
    cedt::PortAssociation::new(u16_of(get(a, "seg")), u8_of(get(a, "bus")), u8_of(get(a, "dev")), u8_of(get(a, "fn")), p, u64_of(get(a, "base")))
}

// ------------------------------------------------------------------------------------------ HEST
fn hest_pci(p: &Value) -> hest::PciDevice {
    hest::PciDevice::new(u8_of(get(p, "bus")), u8_of(get(p, "dev")), u8_of(get(p, "fn")))
}
fn ff(s: &str) -> hest::FirmwareFirst {
    match s {
        "Enabled" => hest::FirmwareFirst::Enabled,
        "Disabled" => hest::FirmwareFirst::Disabled,
        x => panic!("FirmwareFirst {x}"),
    }
}
pub fn mk_aerroot(e: &Value) -> hest::PcieAerRootPort {
    let a = get(e, "a");
    let mut s = if str_of(get(a, "ctor")) == "global" { hest::PcieAerRootPort::new_global() } else { hest::PcieAerRootPort::new_root_port(ff(str_of(get(a, "ff"))), hest_pci(get(a, "pci"))) };
    for c in calls(e) {
        probe(e, &s);
        s = match cname(c) {
            "num_records" => s.num_records(u32_of(carg(c, "v"))),
            "max_sections" => s.max_sections(u32_of(carg(c, "v"))),
            "device_control" => s.device_control(u16_of(carg(c, "v"))),
            "uncorrectable_error_mask" => s.uncorrectable_error_mask(u32_of(carg(c, "v"))),
            "uncorrectable_error_severity" => s.uncorrectable_error_severity(u32_of(carg(c, "v"))),
            "correctable_error_mask" => s.correctable_error_mask(u32_of(carg(c, "v"))),
            "aer_cap_ctrl" => s.aer_cap_ctrl(u32_of(carg(c, "v"))),
            "root_error_command" => s.root_error_command(u32_of(carg(c, "v"))),
            x => panic!("aerroot call {x}"),
        };
    }
    s
}
pub fn mk_aerdev(e: &Value) -> hest::PcieAerDevice {
    let a = get(e, "a");
    let mut s = if str_of(get(a, "ctor")) == "global" { hest::PcieAerDevice::new_global() } else { hest::PcieAerDevice::new_root_port(ff(str_of(get(a, "ff"))), hest_pci(get(a, "pci"))) };
    for c in calls(e) {
        probe(e, &s);
        s = match cname(c) {
            "num_records" => s.num_records(u32_of(carg(c, "v"))),
            "max_sections" => s.max_sections(u32_of(carg(c, "v"))),
            "device_control" => s.device_control(u16_of(carg(c, "v"))),
            "uncorrectable_error_mask" => s.uncorrectable_error_mask(u32_of(carg(c, "v"))),
            "uncorrectable_error_severity" => s.uncorrectable_error_severity(u32_of(carg(c, "v"))),
            "correctable_error_mask" => s.correctable_error_mask(u32_of(carg(c, "v"))),
            "aer_cap_ctrl" => s.aer_cap_ctrl(u32_of(carg(c, "v"))),
            x => panic!("aerdev call {x}"),
        };
    }
    s
}
pub fn mk_aerbridge(e: &Value) -> hest::PcieAerBridge {
    let a = get(e, "a");
    let mut s = if str_of(get(a, "ctor")) == "global" { hest::PcieAerBridge::new_global() } else { hest::PcieAerBridge::new_bridge(ff(str_of(get(a, "ff"))), hest_pci(get(a, "pci"))) };
    for c in calls(e) {
        probe(e, &s);
        s = match cname(c) {
            "num_records" => s.num_records(u32_of(carg(c, "v"))),
            "max_sections" => s.max_sections(u32_of(carg(c, "v"))),
            "device_control" => s.device_control(u16_of(carg(c, "v"))),
            "uncorrectable_error_mask" => s.uncorrectable_error_mask(u32_of(carg(c, "v"))),
            "uncorrectable_error_severity" => s.uncorrectable_error_severity(u32_of(carg(c, "v"))),
            "correctable_error_mask" => s.correctable_error_mask(u32_of(carg(c, "v"))),
            "aer_cap_ctrl" => s.aer_cap_ctrl(u32_of(carg(c, "v"))),
            "secondary_uncorrectable_error_mask" => s.secondary_uncorrectable_error_mask(u32_of(carg(c, "v"))),
            "secondary_uncorrectable_error_severity" => s.secondary_uncorrectable_error_severity(u32_of(carg(c, "v"))),
            "secondary_aer_cap_ctrl" => s.secondary_aer_cap_ctrl(u32_of(carg(c, "v"))),
            x => panic!("aerbridge call {x}"),
        };
    }
    s
}
pub fn mk_notif(n: &Value) -> hest::NotificationStructure {
    use hest::NotificationType as T;
    let t = match str_of(get(n, "type")) {
        "Polled" => T::Polled,
        "ExternalIrq" => T::ExternalIrq,
        "LocalIrq" => T::LocalIrq,
        "Sci" => T::Sci,
        "Nmi" => T::Nmi,
        "Cmci" => T::Cmci,
        "Mce" => T::Mce,
        "GpioSignal" => T::GpioSignal,
        "Armv8Sea" => T::Armv8Sea,
        "Armv8Sei" => T::Armv8Sei,
        "ExternalGsiv" => T::ExternalGsiv,
        "SoftwareException" => T::SoftwareException,
        "RiscvSupervisorSoftwareEvent" => T::RiscvSupervisorSoftwareEvent,
        "RiscvLowPriorityRasInterrupt" => T::RiscvLowPriorityRasInterrupt,
        "RiscvHighPriorityRasInterrupt" => T::RiscvHighPriorityRasInterrupt,
        "RiscvHardwareErrorException" => T::RiscvHardwareErrorException,
        x => panic!("NotificationType {x}"),
    };
    let mut s = hest::NotificationStructure::new(t);
    for c in list(n, "calls") {
        s = match cname(c) {
            "conf_write_en" => s.conf_write_en(u16_of(carg(c, "v"))),
            "poll_interval_ms" => s.poll_interval_ms(u32_of(carg(c, "v"))),
            "vector" => s.vector(u32_of(carg(c, "v"))),
            "polling_threshold_value" => s.polling_threshold_value(u32_of(carg(c, "v"))),
            "polling_threshold_window_ms" => s.polling_threshold_window_ms(u32_of(carg(c, "v"))),
            "error_threshold_value" => s.error_threshold_value(u32_of(carg(c, "v"))),
            "error_threshold_window_ms" => s.error_threshold_window_ms(u32_of(carg(c, "v"))),
            x => panic!("notif call {x}"),
        };
    }
    s
}
fn hest_enabled(s: &str) -> hest::EnabledStatus {
    match s {
        "Enabled" => hest::EnabledStatus::Enabled,
        "Disabled" => hest::EnabledStatus::Disabled,
        x => panic!("hest EnabledStatus {x}"),
    }
}
pub fn mk_ghes(e: &Value) -> hest::GenericHardwareSource {
    let a = get(e, "a");
    let mut s = hest::GenericHardwareSource::new(u16_of(get(a, "source_id")), hest_enabled(str_of(get(a, "enabled"))));
    for c in calls(e) {
        probe(e, &s);
        s = match cname(c) {
            "num_records" => s.num_records(u32_of(carg(c, "v"))),
            "max_sections" => s.max_sections(u32_of(carg(c, "v"))),
            "max_raw_length" => s.max_raw_length(u32_of(carg(c, "v"))),
            "error_status_address" => s.error_status_address(mk_gas(carg(c, "v"))),
            "notification" => s.notification(mk_notif(carg(c, "v"))),
            "error_status_block_len" => s.error_status_block_len(u32_of(carg(c, "v"))),
            x => panic!("ghes call {x}"),
        };
    }
    s
}
pub fn mk_ghesv2(e: &Value) -> hest::GenericHardwareSourceV2 {
    let a = get(e, "a");
    let mut s = hest::GenericHardwareSourceV2::new(u16_of(get(a, "source_id")), hest_enabled(str_of(get(a, "enabled"))));
    for c in calls(e) {
        probe(e, &s);
        s = match cname(c) {
            "num_records" => s.num_records(u32_of(carg(c, "v"))),
            "max_sections" => s.max_sections(u32_of(carg(c, "v"))),
            "max_raw_length" => s.max_raw_length(u32_of(carg(c, "v"))),
            "error_status_address" => s.error_status_address(mk_gas(carg(c, "v"))),
            "notification" => s.notification(mk_notif(carg(c, "v"))),
            "error_status_block_len" => s.error_status_block_len(u32_of(carg(c, "v"))),
            "read_ack_register" => s.read_ack_register(mk_gas(carg(c, "v"))),
            "read_ack_preserve" => s.read_ack_preserve(u64_of(carg(c, "v"))),
            "read_ack_write" => s.read_ack_write(u64_of(carg(c, "v"))),
            x => panic!("ghesv2 call {x}"),
        };
    }
    s
}

// ------------------------------------------------------------------------------------------ RQSC
fn mk_resource(r: &Value) -> rqsc::ResourceStructure {
    let rt = match str_of(get(r, "rtype")) {
        "Cache" => rqsc::ResourceType::Cache,
        "Memory" => rqsc::ResourceType::Memory,
        x => panic!("ResourceType {x}"),
    };
    let id = get(r, "id");
    let rid = match str_of(get(id, "t")) {
        "cache" => rqsc::ResourceID::Cache(rqsc::CacheResource::new(u32_of(get(id, "cache_id")))),
        "mem" => rqsc::ResourceID::MemoryAffinityStructure(rqsc::MemoryAffinityStructureResource::new(u32_of(get(id, "pxm")), u64_of(get(id, "bw")))),
        "acpi" => rqsc::ResourceID::ACPIDevice(rqsc::ACPIDeviceResource::new(u64_of(get(id, "hid")), u32_of(get(id, "uid")))),
        "pci" => rqsc::ResourceID::PCIDevice(rqsc::PCIDeviceResource::new(u32_of(get(id, "bdf")))),
        "vendor" => rqsc::ResourceID::VendorSpecific(u8_of(get(id, "idtype")), bytes_of(get(id, "data"))),
        x => panic!("resource id {x}"),
    };
    rqsc::ResourceStructure::new(rt, u16_of(get(r, "flags")), rid)
}
pub fn mk_qos(e: &Value) -> rqsc::QoSController {
    let a = get(e, "a");
    let t = match str_of(get(a, "type")) {
        "Capacity" => rqsc::ControllerType::Capacity,
        "Bandwidth" => rqsc::ControllerType::Bandwidth,
        x => panic!("ControllerType {x}"),
    };
    let mut q = rqsc::QoSController::new(t, mk_gas(get(a, "reg")), u32_of(get(a, "rcid")), u32_of(get(a, "mcid")), u16_of(get(a, "flags")));
    for c in calls(e) {
        probe(e, &q);
        if e.get("probe").map(bool_of).unwrap_or(false) {
            let _ = guarded(|| q.len());
        }
        match cname(c) {
            "add_resource" => q.add_resource(mk_resource(carg(c, "v"))),
            x => panic!("qos call {x}"),
        }
    }
    q
}
