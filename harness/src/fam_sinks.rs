//! Family "sinks" (C14): serialise one object into every kind of sink and record what each received.
use crate::fam_aml::Node;
use crate::fam_table::{apply, new_table};
use crate::structs::*;
use crate::util::*;
use acpi_tables::{aml, sdt::Sdt, Aml, AmlSink, Checksum};
use serde_json::{json, Value};
use zerocopy::IntoBytes;

/// Implements only the mandatory method: everything arrives through the trait's default methods.
struct ByteOnly(Vec<u8>);
impl AmlSink for ByteOnly {
    fn byte(&mut self, b: u8) {
        self.0.push(b);
    }
}

/// Overrides every method and records which entry point was called with what.
struct Recorder(Vec<(&'static str, Vec<u8>)>);
impl AmlSink for Recorder {
    fn byte(&mut self, b: u8) {
        self.0.push(("byte", vec![b]));
    }
    fn word(&mut self, w: u16) {
        self.0.push(("word", w.to_le_bytes().to_vec()));
    }
    fn dword(&mut self, d: u32) {
        self.0.push(("dword", d.to_le_bytes().to_vec()));
    }
    fn qword(&mut self, q: u64) {
        self.0.push(("qword", q.to_le_bytes().to_vec()));
    }
    fn vec(&mut self, v: &[u8]) {
        self.0.push(("vec", v.to_vec()));
    }
}

fn raw_form(st: &str, e: &Value) -> Option<Vec<u8>> {
    Some(match st {
        "lapic" => mk_lapic(e).as_bytes().to_vec(),
        "ioapic" => mk_ioapic(e).as_bytes().to_vec(),
        "gicc" => mk_gicc(e).as_bytes().to_vec(),
        "gicd" => mk_gicd(e).as_bytes().to_vec(),
        "gicmsi" => mk_gicmsi(e).as_bytes().to_vec(),
        "gicr" => mk_gicr(e).as_bytes().to_vec(),
        "gicits" => mk_gicits(e).as_bytes().to_vec(),
        "rintc" => mk_rintc(e).as_bytes().to_vec(),
        "imsic" => mk_imsic(e).as_bytes().to_vec(),
        "aplic" => mk_aplic(e).as_bytes().to_vec(),
        "plic" => mk_plic(e).as_bytes().to_vec(),
        "rintcaff" => mk_rintcaff(e).as_bytes().to_vec(),
        "mpda" => mk_mpda(e).as_bytes().to_vec(),
        "aerroot" => mk_aerroot(e).as_bytes().to_vec(),
        "aerdev" => mk_aerdev(e).as_bytes().to_vec(),
        "aerbridge" => mk_aerbridge(e).as_bytes().to_vec(),
        "ghes" => mk_ghes(e).as_bytes().to_vec(),
        "ghesv2" => mk_ghesv2(e).as_bytes().to_vec(),
        "notif" => mk_notif(&json!({"type": get(get(e, "a"), "type"), "calls": e.get("calls").cloned().unwrap_or(json!([]))})).as_bytes().to_vec(),
        "gas" => mk_gas(get(e, "a")).as_bytes().to_vec(),
        _ => return None,
    })
}

fn observe(obj: &dyn Aml, raw: Option<Vec<u8>>, run: u64, inner: &Value, out: &mut Out) {
    let r = guarded(|| {
        let mut v = Vec::new();
        obj.to_aml_bytes(&mut v);
        let mut again = Vec::new();
        obj.to_aml_bytes(&mut again);
        let mut bo = ByteOnly(Vec::new());
        obj.to_aml_bytes(&mut bo);
        let mut rec = Recorder(Vec::new());
        obj.to_aml_bytes(&mut rec);
        let mut ck = Checksum::default();
        obj.to_aml_bytes(&mut ck);
        let u8s = acpi_tables::u8sum(obj);
        let mut sdt = Sdt::new(*b"SINK", 36, 1, *b"VERIF_", *b"SINKTEST", 1);
        let big = v.len() > 20000;
        if !big {
            obj.to_aml_bytes(&mut sdt); // quadratic in the object size (checksum recomputed per byte)
        }
        // a generic table that already holds data, such that the object straddles a 64 KiB boundary of the table's
        // length (every byte pushed re-sums the table: only small objects, one run in eight)
        let mut sdt2: Option<Sdt> = None;
        if run % 8 == 0 && v.len() >= 2 && v.len() <= 1500 {
            let mut t = Sdt::new(*b"SNK2", 36, 1, *b"VERIF_", *b"SINKTEST", 1);
            t.append_slice(&vec![0xEEu8; 65536 - 36 - v.len() / 2]);
            obj.to_aml_bytes(&mut t);
            sdt2 = Some(t);
        }
        let mut pb = aml::PackageBuilder::new();
        obj.to_aml_bytes(&mut pb);
        let mut pbv = Vec::new();
        pb.to_aml_bytes(&mut pbv);
        let calls: Vec<Value> = rec.0.iter().map(|(m, d)| json!({"m": m, "d": jbytes(d)})).collect();
        let mut e = json!({"ev":"sinks","run":run,"what":inner.get("fam").cloned().unwrap_or(json!("")),
            "kind":inner.get("kind").or(inner.get("st")).cloned().unwrap_or(json!("")),
            "vec":jbytes(&v),"again":jbytes(&again),"byteonly":jbytes(&bo.0),"calls":calls,
            "ck_raw":ck.raw_value(),"ck_value":ck.value(),"u8sum":u8s,"pb":jbytes(&pbv),"panic":false});
        if !big {
            e["sdt"] = jbytes(sdt.as_slice());
            e["sdt_len"] = json!(sdt.len() as u64);
        }
        if let Some(t) = &sdt2 {
            let sl = t.as_slice();
            e["sdt2_len"] = json!(sl.len() as u64);
            e["sdt2_sum8"] = json!(sum8(sl));
            e["sdt2_head"] = jbytes(&sl[..36]);
            e["sdt2_tail"] = jbytes(&sl[sl.len() - v.len().min(sl.len())..]);
        }
        if let Some(r) = &raw {
            e["raw"] = jbytes(r);
        }
        e
    });
    match r {
        Ok(e) => out.emit(e),
        Err(()) => out.emit(json!({"ev":"sinks","run":run,"panic":true,"what":inner.get("fam").cloned().unwrap_or(json!(""))})),
    }
}

pub fn exec(run: u64, prog: &Value, out: &mut Out) {
    let inner = get(prog, "inner");
    match str_of(get(inner, "fam")) {
        "table" => {
            let kind = str_of(get(inner, "kind"));
            let c = inner.get("ctor").cloned().unwrap_or(json!({}));
            let ops = list(inner, "ops");
            let built = guarded(|| {
                let mut t = new_table(kind, &c);
                let mut hs = Hs(Vec::new());
                for (i, op) in ops.iter().enumerate() {
                    let h = apply(&mut t, &c, &ops[..i], op, &hs);
                    hs.0.push(h);
                }
                t
            });
            match built {
                Ok(t) => observe(t.aml(), None, run, inner, out),
                Err(()) => out.emit(json!({"ev":"sinks","run":run,"panic":true,"what":"table"})),
            }
        }
        "aml" => {
            // alternately the crate's own objects throughout and wrapper children (user-defined Aml implementors)
            if run % 2 == 0 {
                observe(&crate::fam_aml::NativeNode(get(inner, "tree").clone()), None, run, inner, out)
            } else {
                observe(&Node(get(inner, "tree").clone()), None, run, inner, out)
            }
        }
        "sub" => {
            let st = str_of(get(inner, "st"));
            let e = json!({"a": inner.get("a").cloned().unwrap_or(json!({})), "calls": inner.get("calls").cloned().unwrap_or(json!([]))});
            let built = guarded(|| (crate::fam_sub::mk(st, &e, &Hs(Vec::new())), raw_form(st, &e)));
            match built {
                Ok((obj, raw)) => observe(obj.as_ref(), raw, run, inner, out),
                Err(()) => out.emit(json!({"ev":"sinks","run":run,"panic":true,"what":"sub"})),
            }
        }
        f => panic!("sinks: unknown inner family {f}"),
    }
}
