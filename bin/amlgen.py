"""Generators of AML term trees (JSON) for the AML properties.  Only shapes and argument values are decided
here; what the bytes must be is decided by /verif/spec (AmlEnc/AmlDec/AmlBase via Trace_Aml.tla)."""
import vlib

LEAD = "ABCDEFGHIJKLMNOPQRSTUVWXYZ_"
REST = LEAD + "0123456789"
BINOPS = ["Add", "Concat", "Subtract", "Multiply", "ShiftLeft", "ShiftRight", "And", "Nand", "Or", "Nor", "Xor", "ConcatRes", "Mod",
          "Index", "ToString", "CreateDWordField", "CreateQWordField"]
CMPOPS = ["Equal", "LessThan", "GreaterThan", "NotEqual", "GreaterEqual", "LessEqual"]
UNOPS = ["ObjectType", "SizeOf", "Return", "DeRefOf"]
SPACES = ["SystemMemory", "SystemIO", "PCIConfig", "EmbeddedControl", "SMBus", "SystemCMOS", "PciBarTarget", "IPMI",
          "GeneralPurposeIO", "GenericSerialBus"]
GAS_SPACES = ["SystemMemory", "SystemIo", "PciConfigSpace", "EmbeddedController", "Smbus", "SystemCmos", "PciBarTarget", "Ipmi",
              "GeneralPursposeIo", "GenericSerialBus", "PlatformCommunicationsChannel", "PlatformRuntimeMechanism",
              "FunctionalFixedHardware"]
GAS_ACCESS = ["Undefined", "ByteAccess", "WordAccess", "DwordAccess", "QwordAccess"]
FRAMED = ["Package", "PackageBuilder", "VarPackage", "BufferData", "BufferTerm", "ResourceTemplate", "Device", "Scope", "ScopeRaw",
          "Method", "PowerResource", "Field", "If", "Else", "While"]


# characters with a treacherous relation to ASCII under the standard library's string functions: case mappings that
# land in (or expand to) ASCII letters, non-ASCII digits / upper-case letters (is_numeric, is_alphabetic, is_uppercase),
# white space that trim() removes, zero-width characters, signs and radix prefixes that integer parsers accept
HOSTILE = ["\u0131", "\u017f", "\u212a", "\u00df", "\ufb00", "\ufb01", "\ufb02", "\ufb03", "\ufb05", "\ufb06", "\u0130", "\uff21",
           "\uff10", "\u0660", "\u00b2", "\u2160", "\u0391", "\u0410", "\u00c0", "\u01c5", "\u1e9e", "\u0149", " ", "\t", "\n", "\r", "\u00a0", "\u3000", "\u200b",
           "\ufeff", "\0", "x", "a", "z", "0x", "1_"] + [chr(c) for c in range(0x20, 0x7f) if not chr(c).isalnum()]   # + all ASCII punctuation


def hostile_variants(base, positions=None):
    """base with a hostile character replacing 1, 2 or 3 characters at a position, or inserted there (every position)"""
    out = []
    for pos in (positions if positions is not None else range(len(base) + 1)):
        for h in HOSTILE:
            out.append(base[:pos] + h + base[pos:])
            for k in (1, 2, 3):
                if pos + k <= len(base):
                    out.append(base[:pos] + h + base[pos + k:])
    return out


def chars(s):
    return list(s.encode("utf-8"))


class G:
    def __init__(self, rng):
        self.r = rng
        self.calls = {}        # method name -> arity
        self.used = set()

    # ---- names
    def seg(self):
        r = self.r
        return r.choice(LEAD) + "".join(r.choice(REST) for _ in range(3))

    def plain_seg(self):
        while True:
            s = self.seg()
            if not s.startswith("M0"):        # "M0xx" is reserved for method-call names
                return s

    def path(self, maxsegs=3):
        r = self.r
        n = r.choice([1, 1, 1, 2, 2, 3, maxsegs])
        s = ".".join(self.plain_seg() for _ in range(max(1, n)))
        return chars(("\\" if r.chance(1, 3) else "") + s)

    def method_name(self, arity):
        for name, a in self.calls.items():
            if a == arity and self.r.chance(1, 2):
                return name
        def fresh():
            # a method may be named by any NameString: a single segment, rooted, or reached through other segments
            seg = "M0%d%s" % (arity, self.r.choice(REST))
            k = self.r.below(8)
            return seg if k < 5 else ("\\" + seg if k == 5 else (self.plain_seg() + "." + seg if k == 6 else "\\" + self.plain_seg() + "." + self.plain_seg() + "." + seg))
        name = fresh()
        while name in self.calls and self.calls[name] != arity:
            name = fresh()
        self.calls[name] = arity
        return name

    def arities(self):
        return [{"path": chars(n), "n": a} for n, a in sorted(self.calls.items())]

    # ---- leaves
    def integer(self):
        r = self.r
        ty = r.choice(["u8", "u16", "u32", "u64", "usize"])
        w = {"u8": 1, "u16": 2, "u32": 4, "u64": 8, "usize": 8}[ty]
        return {"t": "Int", "ty": ty, "v": r.scalar(w)}

    def string(self):
        r = self.r
        n = r.choice([0, 1, 3, 8, 20, 20, 62, 63, 254, 255, 256, 300 + r.below(5000)]) if r.chance(1, 3) else r.choice([0, 1, 3, 8, 20])
        s = [1 + r.below(126) for _ in range(n)]
        if r.chance(1, 6):      # DEL, and the characters with a treacherous relation to ASCII (anything but NUL, the terminator)
            k = r.below(len(s) + 1)     # (s is still ASCII here: the insertion cannot split a multi-byte character)
            s = s[:k] + list(r.choice([h for h in HOSTILE if "\0" not in h] + ["\x7f"]).encode("utf-8")) + s[k:]
        if r.chance(1, 5):      # multi-byte UTF-8 characters
            s += list(r.choice(["\u00e9", "\u20ac", "\U0001f600"]).encode("utf-8"))
        return {"t": "Str", "s": s, "owned": r.chance(1, 2)}

    def eisa(self):
        r = self.r
        return {"t": "Eisa", "s": chars("".join(r.choice("ABCDEFGHIJKLMNOPQRSTUVWXYZ") for _ in range(3)) +
                                        "".join(r.choice("0123456789ABCDEF") for _ in range(4)))}

    def uuid(self):
        r = self.r
        h = lambda n: "".join(r.choice("0123456789abcdefABCDEF") for _ in range(n))
        return {"t": "Uuid", "s": chars("-".join([h(8), h(4), h(4), h(4), h(12)]))}

    def leaf(self):
        r = self.r
        k = r.below(12)
        if k == 0:
            return {"t": "Zero"}
        if k == 1:
            return {"t": "One"}
        if k == 2:
            return {"t": "Ones"}
        if k in (3, 4):
            return self.integer()
        if k == 5:
            return self.string()
        if k == 6:
            return {"t": "Path", "s": self.path()}
        if k == 7:
            return self.eisa()
        if k == 8:
            return {"t": "Arg", "n": r.below(7)}
        if k == 9:
            return {"t": "Local", "n": r.below(8)}
        if k == 10:
            return {"t": "FieldName", "s": chars(self.plain_seg())}
        return {"t": "BufferData", "d": r.bytes(r.choice([0, 1, 5, 16]))}

    # ---- resource descriptors
    def gas(self):
        r = self.r
        if r.chance(1, 4):      # the PCI-configuration-space constructor
            return {"width": r.scalar(1), "access": r.choice(GAS_ACCESS), "device": r.scalar(1), "function": r.scalar(1), "register": r.scalar(2)}
        return {"space": r.choice(GAS_SPACES), "width": r.scalar(1), "offset": r.scalar(1), "access": r.choice(GAS_ACCESS),
                "addr": r.scalar(8)}

    def minmax(self, w):
        """min <= max with a representable range size (max - min + 1 must not overflow the width)"""
        r = self.r
        full = (1 << (8 * w)) - 1
        while True:
            a = int.from_bytes(bytes(r.scalar(w)), "little")
            b = int.from_bytes(bytes(r.scalar(w)), "little")
            lo, hi = min(a, b), max(a, b)
            if r.chance(1, 8):
                hi = lo                                  # single-address range
            if hi - lo + 1 <= full:
                return vlib.le(lo, w), vlib.le(hi, w)

    def descriptor(self, kind=None):
        r = self.r
        kind = kind or r.choice(["Memory32Fixed", "IO", "Interrupt", "Register", "AddrSpace", "AddrSpace", "AddrSpace"])
        if kind == "Memory32Fixed":
            return {"t": kind, "rw": r.chance(1, 2), "base": r.scalar(4), "len": r.scalar(4)}
        if kind == "IO":
            return {"t": kind, "min": r.scalar(2), "max": r.scalar(2), "align": r.scalar(1), "len": r.scalar(1)}
        if kind == "Interrupt":
            return {"t": kind, "consumer": r.chance(1, 2), "edge": r.chance(1, 2), "low": r.chance(1, 2), "shared": r.chance(1, 2),
                    "num": r.scalar(4)}
        if kind == "Register":
            return {"t": kind, "reg": self.gas()}
        w = r.choice([2, 4, 8])
        k = r.choice(["memory", "io", "bus"])
        lo, hi = self.minmax(w)
        d = {"t": "AddrSpace", "w": w, "kind": k, "min": lo, "max": hi}
        if k == "memory":
            d["cache"] = r.choice(["NotCacheable", "Cacheable", "WriteCombining", "PreFetchable"])
            d["rw"] = r.chance(1, 2)
        if k != "bus" and r.chance(1, 2):
            d["trans"] = r.scalar(w)
        return d

    def template(self, n=None):
        n = self.r.choice([0, 1, 2, 3, 5]) if n is None else n
        return {"t": "ResourceTemplate", "ch": [self.descriptor() for _ in range(n)]}

    # ---- constructors: build a node of kind k whose children come from child()
    def make(self, k, child, kids=None):
        r = self.r

        def chs():
            if kids is not None:
                return kids
            return [child() for _ in range(r.choice([0, 1, 1, 2, 3]))]

        if k == "PackageBuilder" and r.chance(1, 3):
            return {"t": k, "ch": chs(), "default": True}       # PackageBuilder::default() instead of ::new()
        if k in ("Package", "PackageBuilder"):
            return {"t": k, "ch": chs()}
        if k == "VarPackage":
            return {"t": k, "v": child()}
        if k == "BufferTerm":
            return {"t": k, "v": child()}
        if k == "BufferData":
            return {"t": k, "d": r.bytes(r.choice([0, 1, 7, 40]))}
        if k == "ResourceTemplate":
            return self.template()
        if k == "Uuid":
            return self.uuid()
        if k == "Name":
            return {"t": k, "path": self.path(), "v": child()}
        if k in ("Device", "Scope", "ScopeRaw"):
            return {"t": k, "path": self.path(), "ch": chs()}
        if k == "Method":
            return {"t": k, "path": self.path(), "args": r.below(8), "ser": r.chance(1, 2), "ch": chs()}
        if k == "PowerResource":
            return {"t": k, "path": self.path(), "level": r.scalar(1), "order": r.scalar(2), "ch": chs()}
        if k == "Field":
            fs = []
            for _ in range(r.choice([0, 1, 2, 4, 4, 13, 60, 300]) if r.chance(1, 4) else r.choice([0, 1, 2, 4])):
                bits = r.choice([0, 1, 8, 62, 63, 64, 4094, 4095, 4096, 1048575, 1048576, 268435455, r.below(1 << 28)])
                fs.append({"k": "named", "name": chars(self.plain_seg()), "bits": bits} if r.chance(2, 3)
                          else {"k": "reserved", "bits": bits})
            return {"t": k, "path": self.path(), "access": r.choice(["Any", "Byte", "Word", "DWord", "QWord", "Buffer"]),
                    "lock": r.choice(["NoLock", "Lock"]), "update": r.choice(["Preserve", "WriteAsOnes", "WriteAsZeroes"]),
                    "fields": fs}
        if k == "OpRegion":
            return {"t": k, "path": self.path(), "space": r.choice(SPACES), "off": child(), "len": child()}
        if k == "Mutex":
            return {"t": k, "path": self.path(), "sync": r.scalar(1)}
        if k == "Acquire":
            return {"t": k, "path": self.path(), "timeout": r.scalar(2)}
        if k == "Release":
            return {"t": k, "path": self.path()}
        if k in ("If", "While"):
            return {"t": k, "p": child(), "ch": chs()}
        if k == "Else":
            return {"t": k, "ch": chs()}
        if k == "Cmp":
            return {"t": k, "op": r.choice(CMPOPS), "l": child(), "r": child()}
        if k == "Store":
            return {"t": k, "name": child(), "value": child()}
        if k == "Notify":
            return {"t": k, "obj": child(), "value": child()}
        if k == "Un":
            return {"t": k, "op": r.choice(UNOPS), "a": child()}
        if k == "Bin":
            return {"t": k, "op": r.choice(BINOPS), "target": child(), "a": child(), "b": child()}
        if k == "Conv":
            return {"t": k, "op": r.choice(["ToBuffer", "ToInteger"]), "target": child(), "a": child()}
        if k == "CreateField":
            return {"t": k, "name": {"t": "FieldName", "s": chars(self.plain_seg())}, "src": child(), "idx": child(), "nbits": child()}
        if k == "Mid":
            return {"t": k, "src": child(), "idx": child(), "len": child(), "res": child()}
        if k == "MethodCall":
            n = r.choice([0, 1, 2, 3, 3, 5, 7]) if kids is None else len(kids)
            args = kids if kids is not None else [child() for _ in range(n)]
            return {"t": k, "path": chars(self.method_name(len(args))), "args": args}
        raise ValueError(k)


INNER = ["Package", "PackageBuilder", "VarPackage", "BufferTerm", "BufferData", "ResourceTemplate", "Uuid", "Name", "Device", "Scope",
         "Method", "PowerResource", "Field", "OpRegion", "Mutex", "Acquire", "Release", "If", "Else", "While", "Cmp", "Store",
         "Notify", "Un", "Bin", "Conv", "CreateField", "Mid", "MethodCall"]
# child slots of each constructor: (field, is_list)
SLOTS = {"Package": [("ch", True)], "PackageBuilder": [("ch", True)], "VarPackage": [("v", False)], "BufferTerm": [("v", False)],
         "Name": [("v", False)], "Device": [("ch", True)], "Scope": [("ch", True)], "ScopeRaw": [("ch", True)], "Method": [("ch", True)],
         "PowerResource": [("ch", True)], "OpRegion": [("off", False), ("len", False)], "If": [("p", False), ("ch", True)],
         "Else": [("ch", True)], "While": [("p", False), ("ch", True)], "Cmp": [("l", False), ("r", False)],
         "Store": [("name", False), ("value", False)], "Notify": [("obj", False), ("value", False)], "Un": [("a", False)],
         "Bin": [("target", False), ("a", False), ("b", False)], "Conv": [("target", False), ("a", False)],
         "CreateField": [("src", False), ("idx", False), ("nbits", False)],
         "Mid": [("src", False), ("idx", False), ("len", False), ("res", False)], "MethodCall": [("args", True)]}


def prog(g, tree, tag=None):
    p = {"fam": "aml", "tree": tree, "arities": g.arities()}
    if tag:
        p["tag"] = tag
    return p


def random_tree(rng, depth):
    g = G(rng)

    def node(d):
        if d <= 0 or rng.chance(1, 4):
            return g.leaf()
        return g.make(rng.choice(INNER), lambda: node(d - 1))

    t = g.make(rng.choice(INNER), lambda: node(depth - 1))
    return prog(g, t)


def all_variants(rng):
    """every operator / enum variant of the multi-variant constructors at the root"""
    out = []
    for op in BINOPS:
        g = G(rng)
        out.append(prog(g, {"t": "Bin", "op": op, "target": g.leaf(), "a": g.leaf(), "b": g.leaf()}))
    for op in CMPOPS:
        g = G(rng)
        out.append(prog(g, {"t": "Cmp", "op": op, "l": g.leaf(), "r": g.leaf()}))
    for op in UNOPS:
        g = G(rng)
        out.append(prog(g, {"t": "Un", "op": op, "a": g.leaf()}))
    for op in ("ToBuffer", "ToInteger"):
        g = G(rng)
        out.append(prog(g, {"t": "Conv", "op": op, "target": g.leaf(), "a": g.leaf()}))
    for sp in SPACES:
        g = G(rng)
        out.append(prog(g, {"t": "OpRegion", "path": g.path(), "space": sp, "off": g.integer(), "len": g.integer()}))
    for acc in ["Any", "Byte", "Word", "DWord", "QWord", "Buffer"]:
        for lock in ["NoLock", "Lock"]:
            for upd in ["Preserve", "WriteAsOnes", "WriteAsZeroes"]:
                g = G(rng)
                f = g.make("Field", g.leaf)
                f.update(access=acc, lock=lock, update=upd)
                out.append(prog(g, f))
    for n in range(7):
        out.append(prog(G(rng), {"t": "Arg", "n": n}))
    for n in range(8):
        out.append(prog(G(rng), {"t": "Local", "n": n}))
    for args in range(8):
        for ser in (False, True):
            g = G(rng)
            out.append(prog(g, {"t": "Method", "path": g.path(), "args": args, "ser": ser, "ch": [g.leaf()]}))
    return out


def all_pairs(rng):
    """every constructor in every child position of every other constructor (depth 2 complete)"""
    out = []
    for parent in sorted(SLOTS):
        for (field, is_list) in SLOTS[parent]:
            for childk in INNER:
                g = G(rng)
                c = g.make(childk, g.leaf)
                if parent == "MethodCall":
                    p = g.make(parent, g.leaf, kids=[g.leaf(), c])
                else:
                    p = g.make(parent, g.leaf)
                    if is_list:
                        lst = list(p[field])
                        lst.insert(rng.below(len(lst) + 1), c)
                        p[field] = lst
                    else:
                        p[field] = c
                out.append(prog(g, p, tag=parent + "." + field + "<-" + childk))
    return out


def size_leaves(g):
    """one leaf per encoded-size class of every leaf kind: the same kind of child may occupy 1, 2, 3, 5 or 9 bytes, and
    a parent that computes its length instead of measuring it must get every class right"""
    out = [{"t": "Zero"}, {"t": "One"}, {"t": "Ones"}]
    for ty, w in (("u8", 1), ("u16", 2), ("u32", 4), ("u64", 8), ("usize", 8)):
        for v in (0, 1, 0x42, 0xFF, 0x100, 0xFFFF, 0x10000, 0xFFFFFFFF, 0x100000000, (1 << 64) - 1):
            if v < (1 << (8 * w)):
                out.append({"t": "Int", "ty": ty, "v": vlib.le(v, w)})
    # EISA ids are integers: a product number 0000 leaves a word
    out += [{"t": "Eisa", "s": chars(x)} for x in ("PNP0000", "ACP0000", "PNP0A08", "PNP0001", "ZZZFFFF", "AAA0000", "AAA0100")]     # (vendor letters A-Z only: anything else is not an id)
    out += [{"t": "Str", "s": chars(x), "owned": o} for x in ("", "A", "\u00e9") for o in (False, True)]
    out += [{"t": "Path", "s": chars(x)} for x in ("ABCD", "\\ABCD", "AB__.CD__", "\\AB__.CD__", "A___.B___.C___", "\\A___.B___.C___")]
    out += [{"t": "BufferData", "d": [7] * n} for n in (0, 1, 2, 54, 55, 56, 57, 58, 59, 60, 61, 62, 63, 64, 255, 256)]
    out += [{"t": "Package", "ch": []}, {"t": "Package", "ch": [{"t": "Zero"}]}, {"t": "ResourceTemplate", "ch": []}]
    # templates whose content (descriptors + end tag) is exactly 253..258 bytes: the width decision of the buffer size
    # is the template's own (Memory32Fixed = 12, IO = 8, extended Interrupt = 9 bytes)
    for dsz in (251, 252, 253, 254, 255, 256):
        for c in range(4):
            rem = dsz - 9 * c
            if rem >= 12 and rem % 4 == 0:
                a = 1 if rem % 8 == 4 else 0
                out.append({"t": "ResourceTemplate", "ch": [g.descriptor("Interrupt") for _ in range(c)] + [g.descriptor("Memory32Fixed") for _ in range(a)]
                            + [g.descriptor("IO") for _ in range((rem - 12 * a) // 8)]})
                break
    for bits in (1, 62, 63, 64, 4093, 4094, 4095, 4096, (1 << 20) - 4, (1 << 20) - 3, (1 << 20) - 2, (1 << 20) - 1, 1 << 20):
        out.append({"t": "Field", "path": chars("FLD_"), "access": "Any", "lock": "NoLock", "update": "Preserve",
                    "fields": [{"k": "named", "name": chars("F___"), "bits": bits}]})
        out.append({"t": "Field", "path": chars("FLD_"), "access": "Any", "lock": "NoLock", "update": "Preserve",
                    "fields": [{"k": "reserved", "bits": bits}, {"k": "named", "name": chars("G___"), "bits": 8}]})
    return out


def all_leaf_sizes(rng):
    """every size class of every leaf kind in every child position of every constructor"""
    out = []
    for parent in sorted(SLOTS):
        for (field, is_list) in SLOTS[parent]:
            g0 = G(rng)
            for i, leaf in enumerate(size_leaves(g0)):
                g = G(rng)
                if parent == "MethodCall":
                    p = g.make(parent, g.leaf, kids=[g.leaf(), leaf])
                else:
                    p = g.make(parent, g.leaf)
                    if is_list:
                        lst = list(p[field])
                        lst.insert(i % (len(lst) + 1), leaf)
                        p[field] = lst
                    else:
                        p[field] = leaf
                out.append(prog(g, p, tag="%s.%s<-leaf%d" % (parent, field, i)))
    return out


def many_children(rng, th=False):
    """containers without a count field holding hundreds to thousands of small children, and chains of one constructor
    nested 8..40 deep (depth and breadth themselves as the variable)"""
    out = []
    small = [{"t": "Zero"}, {"t": "One"}, {"t": "Int", "ty": "u8", "v": [66]}, {"t": "Local", "n": 3}, {"t": "Ones"}]
    for n in ([255, 256, 257, 1000, 2900] if th else [256, 257, 1200]):      # (the specification's parser accepts lists of up to 3000 terms)
        for kind in ("Scope", "Device", "Method", "PowerResource", "If", "Else", "While"):
            g = G(rng)
            ch = [small[(i * 7 + n) % len(small)] for i in range(n)]
            t = g.make(kind, g.leaf)
            t["ch"] = ch
            out.append(prog(g, t, tag="%s/children/%d" % (kind, n)))
    for depth in ([8, 16, 40] if th else [8, 24]):
        for kind in ("Scope", "Device", "Method", "If", "While", "Package", "Else", "VarPackage", "BufferTerm", "Name", "Un"):
            g = G(rng)
            t = g.leaf()
            for _ in range(depth):
                once = [t]
                t = g.make(kind, (lambda: once.pop() if once else {"t": "Zero"}))      # one nested child, the rest leaves
            out.append(prog(g, t, tag="%s/depth/%d" % (kind, depth)))
    return out


def with_equal_children(p, rng):
    """a copy of the program in which, in every list of children, one child is replaced by a copy of a sibling"""
    import copy
    q = copy.deepcopy(p)

    def walk(x):
        if isinstance(x, dict):
            for k, v in x.items():
                if k in ("ch", "args") and isinstance(v, list) and len(v) >= 2:
                    i, j = rng.below(len(v)), rng.below(len(v))
                    v[i] = copy.deepcopy(v[j])
                walk(v)
            for a, b in (("a", "b"), ("l", "r"), ("name", "value"), ("src", "idx")):
                if a in x and b in x and isinstance(x[a], dict) and isinstance(x[b], dict) and rng.chance(1, 2):
                    x[b] = copy.deepcopy(x[a])
        elif isinstance(x, list):
            for v in x:
                walk(v)
    walk(q["tree"])
    q["share"] = True        # equal sub-trees are built once: the SAME object sits in several places (native build)
    if "tag" in q:
        q["tag"] = "equal/" + q["tag"]
    return q


def wrapped(p, i=0):
    """the same object as the child of a container (its length then sits inside another length)"""
    outer = [{"t": "Scope", "path": chars("WRAP"), "ch": [p["tree"]]},
             {"t": "Device", "path": chars("\\_SB_.WRAP"), "ch": [{"t": "Zero"}, p["tree"]]},
             {"t": "Method", "path": chars("WRAP"), "args": 0, "ser": False, "ch": [p["tree"], {"t": "One"}]},
             {"t": "If", "p": {"t": "One"}, "ch": [p["tree"]]}][i % 4]
    q = dict(p, tree=outer)
    if "tag" in p:
        q["tag"] = "wrapped/" + p["tag"]
    return q


def sized(rng, kind, n, inner=None):
    """an object of the given framed kind whose body contains a filler blob of n bytes"""
    g = G(rng)
    blob = {"t": "BufferFill", "n": n, "b": rng.below(256)} if inner is None else inner
    if kind in ("Package", "PackageBuilder"):
        t = {"t": kind, "ch": [blob]}
    elif kind in ("VarPackage", "BufferTerm"):
        t = {"t": kind, "v": blob}
    elif kind == "BufferData":
        t = {"t": "BufferFill", "n": n, "b": rng.below(256)}
    elif kind == "ResourceTemplate":
        t = {"t": kind, "ch": [g.descriptor() for _ in range(max(0, n // 24))]}
    elif kind in ("Device", "Scope", "ScopeRaw"):
        t = {"t": kind, "path": g.path(), "ch": [blob]}
    elif kind == "Method":
        t = {"t": kind, "path": g.path(), "args": rng.below(8), "ser": rng.chance(1, 2), "ch": [blob]}
    elif kind == "PowerResource":
        t = {"t": kind, "path": g.path(), "level": rng.scalar(1), "order": rng.scalar(2), "ch": [blob]}
    elif kind == "Field":
        t = {"t": kind, "path": g.path(), "access": "DWord", "lock": "NoLock", "update": "Preserve",
             "fields": [{"k": "named", "name": chars(g.plain_seg()), "bits": 1 + rng.below(60)} for _ in range(max(0, n // 5))]}
    elif kind in ("If", "While"):
        t = {"t": kind, "p": g.leaf(), "ch": [blob]}
    elif kind == "Else":
        t = {"t": kind, "ch": [blob]}
    else:
        raise ValueError(kind)
    return g, t


def boundary_trees(rng, ranges, kinds=FRAMED, nested=True):
    out = []
    for kind in kinds:
        for lo, hi in ranges:
            for n in range(lo, hi):
                g, t = sized(rng, kind, n)
                out.append(prog(g, t, tag="%s/%d" % (kind, n)))
                if nested and n % 3 == 0:
                    # an inner object whose PkgLength width changes shifts the outer one
                    g2, inner = sized(rng, rng.choice(["Scope", "Method", "If", "Package"]), n)
                    g3, outer = sized(rng, kind, 0, inner=inner) if kind not in ("BufferData", "ResourceTemplate", "Field") else (g2, inner)
                    out.append(prog(g3, outer, tag="%s/nested/%d" % (kind, n)))
    return out
