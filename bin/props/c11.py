"""C11 - option builders set exactly their own specification bit, independently."""
import json

import schema
import vlib
from props import tables_common as tc


def fadt_programs(rng, th):
    c = schema.gen_ctor(schema.Pattern(3), "FADT")
    out = []

    def prog(ops):
        return {"fam": "table", "kind": "FADT", "ctor": c, "ops": ops}

    flags = [{"op": "flag", "a": {"v": f}} for f in schema.FADT_FLAGS]
    profs = [{"op": "preferred_pm_profile", "a": {"v": p}} for p in schema.PM_PROFILES]
    for f in flags + profs:
        out.append(prog([f]))
    for a in flags:                       # all ordered pairs of flags (incl. a flag twice)
        for b in flags:
            out.append(prog([a, b]))
    g = schema.TableGen(schema.Rand(rng), "FADT")
    for _ in range(400 if th else 60):    # random subsets in random order, mixed with the paired setters
        n = rng.choice([3, 5, 8, 25])
        ops = []
        for _ in range(n):
            k = rng.below(10)
            if k < 6:
                ops.append(rng.choice(flags))
            elif k < 7:
                ops.append(rng.choice(profs))
            else:
                op = rng.choice(["dsdt_32", "dsdt_64", "firmware_ctrl_32", "firmware_ctrl_64", "acpi_enable", "acpi_disable", "gpe_info"])
                ops.append({"op": op, "a": g.fadt_args(op)})
        out.append(prog(ops))
    return out


def as_table_programs(subs, rng):
    """the same option-call sequences with the entry added to its table: an option must not reach outside the entry
    (the table's Length, checksum and count fields follow the entry's bytes and nothing else)"""
    op_of = {}
    for op, st in schema.OPSTRUCT.items():
        op_of.setdefault(st, op)
    kind_of = {op: k for k, ops in schema.TABLE_OPS.items() for op in ops}
    out = []
    for p in subs:
        op = op_of.get(p.get("st"))
        if p.get("fam") != "sub" or not op or not p.get("calls"):
            continue
        kind = p.get("kind", kind_of[op])
        c = schema.gen_ctor(schema.Rand(rng), kind)
        pre = list(p.get("pre", []))
        e = {"op": op, "a": p["a"], "calls": p["calls"]}
        if len(out) % 2:
            e["probe"] = True       # the partially built entry is observed between its option calls
        out.append({"fam": "table", "kind": kind, "ctor": c, "ops": pre + [e]})
    return out


def run(ctx):
    rng = vlib.Rng(ctx.seed)
    th = ctx.thorough()
    # (a) option machines of the entry builders: all call sequences to the depth bound, on the specification
    md = schema.option_menu()
    mpath = ctx.path("optmenu.json")
    with open(mpath, "w") as f:
        json.dump(md, f)
    cfg = ctx.path("opt.cfg")
    with open(cfg, "w") as f:
        f.write("SPECIFICATION Spec\nCONSTANT Depth = %d\nINVARIANTS InvUnion InvOrder InvIdem InvDistinct EmitInv\nCHECK_DEADLOCK FALSE\n"
                % (3 if th else 2))
    res = vlib.model_check(ctx, cfg, "MC_Options.tla", workers=12, env={"MENU": mpath}, timeout=3600, xmx="8g")
    subs = [schema.sub_program(md, r["st"], r["path"]) for r in res.replays]
    subs += schema.ctor_variants()
    subs += [schema.saturate(p, False) for p in schema.ctor_variants()] + [schema.saturate(p, True) for p in schema.ctor_variants()]
    for st in md:
        for _ in range(60 if th else 12):
            subs.append(schema.random_sub(rng, md, st, rng.choice([1, 2, 4, 9, 20])))
        subs.append(schema.saturate(schema.random_sub(rng, md, st, 12), False))
        subs.append(schema.saturate(schema.random_sub(rng, md, st, 12), True))
    # (b) the two whole-table option builders
    tabs = tc.mc_replays(ctx, ["FADT", "TCPA_SERVER"], 3, workers=8)
    tabs += fadt_programs(rng, th)
    tabs += tc.random_programs(rng, ["TCPA_SERVER", "FADT"], 600 if th else 120, [1, 3, 6, 12, 30])
    tabs += as_table_programs(subs, rng)
    ctx.samples = tc.sample(subs, 2) + tc.sample(tabs, 1)
    ctx.distinct = tc.distinct(subs + tabs)
    vlib.run_and_judge(ctx, subs, "Trace_Sub.cfg", "Trace_Sub.tla", "c11s")
    tc.judge(ctx, tabs, "c11t")
    vlib.run_and_judge(ctx, subs[-400:], "Trace_Sub.cfg", "Trace_Sub.tla", "c11chk", profile="checked")
    return vlib.finish(ctx, rule="entry builders: all option-call sequences to the depth bound over every option-bearing structure "
                       "(MC_Options: union/order/idempotence/distinctness on the spec), every constructor option combination, random "
                       "longer sequences with repetitions; FADT: every flag and profile alone, all ordered flag pairs, random "
                       "subsets/orders; TCPA server: all sequences to depth 3 + random; predicates on every prefix image: flag "
                       "chunks = union of the individual contributions of the invoked options; a call changes only the chunks it "
                       "governs (chunk-wise frame)")
