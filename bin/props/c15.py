"""C15 - alternative construction paths for the same object emit identical bytes."""
import amlgen
import vlib
from props import aml_common as ac


def alt(a, b, what, summary=False):
    p = {"fam": "alt", "a": a, "b": b, "what": what}
    if summary:
        p["summary"] = True
    return p


def run(ctx):
    rng = vlib.Rng(ctx.seed)
    th = ctx.thorough()
    progs = []
    g = amlgen.G(rng)
    # Scope::new vs Scope::raw and Package::new vs PackageBuilder over child lists from the C06 generator
    for _ in range(3000 if th else 500):
        gg = amlgen.G(rng)
        kids = [amlgen.random_tree(rng, rng.choice([0, 1, 2]))["tree"] for _ in range(rng.choice([0, 1, 2, 3, 6]))]
        kids = [k for k in kids if k["t"] != "MethodCall" and not amlgen_has_call(k)]
        path = gg.path(4)
        progs.append(alt({"t": "Scope", "path": path, "ch": kids}, {"t": "ScopeRaw", "path": path, "ch": kids}, "scope_raw"))
        progs.append(alt({"t": "Package", "ch": kids}, {"t": "PackageBuilder", "ch": kids}, "package_builder"))
        progs.append(alt({"t": "Package", "ch": kids}, {"t": "PackageBuilder", "ch": kids, "default": True}, "package_builder_default"))
    for n in (0, 1, 254, 255, 256, 257, 300):     # the element-count boundary: both paths accept, or both refuse
        progs.append(alt({"t": "Package", "ch": [{"t": "Zero"}] * n}, {"t": "PackageBuilder", "ch": [{"t": "Zero"}] * n}, "package_builder_count"))
    # body sizes sweeping the PkgLength width boundaries
    sizes = list(range(0, 4201)) if th else list(range(0, 131)) + list(range(4080, 4104))
    for n in sizes:
        blob = {"t": "BufferFill", "n": n, "b": n % 251}
        path = g.path(rng.choice([1, 2, 3, 4]))
        progs.append(alt({"t": "Scope", "path": path, "ch": [blob]}, {"t": "ScopeRaw", "path": path, "ch": [blob]}, "scope_raw_size"))
        progs.append(alt({"t": "Package", "ch": [blob]}, {"t": "PackageBuilder", "ch": [blob]}, "package_builder_size"))
    for n in (range((1 << 20) - 12, (1 << 20) + 5) if th else []):
        blob = {"t": "BufferFill", "n": n, "b": 9}
        path = g.path(2)
        progs.append(alt({"t": "Scope", "path": path, "ch": [blob]}, {"t": "ScopeRaw", "path": path, "ch": [blob]}, "scope_raw_size", True))
        progs.append(alt({"t": "Package", "ch": [blob]}, {"t": "PackageBuilder", "ch": [blob]}, "package_builder_size", True))
    # borrowed vs owned strings; platform-width vs 64-bit integers
    for _ in range(2000 if th else 400):
        s = [1 + rng.below(126) for _ in range(rng.choice([0, 1, 4, 30, 200]))]
        if rng.chance(1, 4):        # trailing / embedded NULs and multi-byte characters: still the same bytes either way
            s = rng.choice([s + [0], s + [0, 0], [0] + s, s[:2] + [0] + s[2:], s + list("\u00e9".encode("utf-8")), [32] + s + [32]])
        progs.append(alt({"t": "Str", "s": s, "owned": False}, {"t": "Str", "s": s, "owned": True}, "string_owned"))
        v = rng.scalar(8)
        progs.append(alt({"t": "Int", "ty": "usize", "v": v}, {"t": "Int", "ty": "u64", "v": v}, "usize_u64"))
    # the PackageBuilder state machine itself: all sequences of add_element / direct sink pushes to depth 4 (TLC),
    # random longer ones, and the 255/256 element boundary
    MENU = [{"t": "Zero"}, {"t": "Int", "ty": "u8", "v": [200]}, {"t": "Str", "s": [72, 105], "owned": False}, {"t": "Package", "ch": []},
            {"t": "BufferFill", "n": 60, "b": 0}]
    PUSH = [[], [7], [1, 2, 3, 4, 5, 6, 7, 8]]
    res = vlib.model_check(ctx, "MC_PackageBuilder.cfg", "MC_PackageBuilder.tla", workers=4)
    pbs = []
    for r in res.replays:
        ops = []
        for h in r["ops"]:
            if h["op"] == "add":
                ops.append({"op": "add", "tree": MENU[h["i"] - 1]})
            else:
                d = PUSH[h["i"] - 1]
                ops.append({"op": "push", "d": d, "via": {0: "vec", 1: "byte", 8: "qword"}[len(d)]})
        pbs.append({"fam": "pb", "ops": ops})
    for _ in range(300 if th else 40):
        ops = []
        for _ in range(rng.choice([3, 10, 40])):
            if rng.chance(3, 4):
                ops.append({"op": "add", "tree": amlgen.random_tree(rng, rng.choice([0, 1, 2]))["tree"]})
            else:
                w = rng.choice([1, 2, 4, 8, 3, 0])
                ops.append({"op": "push", "d": rng.bytes(w), "via": {1: "byte", 2: "word", 4: "dword", 8: "qword"}.get(w, "vec")})
        ops = [o for o in ops if o["op"] == "push" or not amlgen_has_call(o["tree"])]
        pbs.append({"fam": "pb", "ops": ops})
    pbs.append({"fam": "pb", "ops": [{"op": "add", "tree": {"t": "Zero"}}] * 258})
    vlib.run_and_judge(ctx, pbs, "Trace_Pb.cfg", "Trace_Pb.tla", "c15pb")
    ctx.samples = [progs[0], progs[1], pbs[0]]
    ctx.distinct = ac.distinct(progs)
    ac.mc_corpus(ctx, progs[::5] if not th else progs[::2], pieces=10)      # the same equalities on the specification
    ac.judge(ctx, progs, "c15")
    ac.judge(ctx, progs[::3], "c15chk", profile="checked")     # also on the build with integer-overflow checks
    ctx.extra["builds"] = ["release", "checked (overflow checks + debug assertions) for a sample"]
    return vlib.finish(ctx, rule="pairs (Scope::new, Scope::raw) and (Package::new, PackageBuilder incl. Default) over paths of 1..4 "
                       "segments and child lists from the C06 generator; body sizes 0..130 and around 4095 (thorough: 0..4200 "
                       "exhaustively and 2^20 +- 12); borrowed/owned strings; usize/u64 integers; predicate: the two observed byte "
                       "strings are identical (and equal the reference encoding)")


def amlgen_has_call(t):
    if isinstance(t, dict):
        if t.get("t") == "MethodCall":
            return True
        return any(amlgen_has_call(v) for v in t.values())
    if isinstance(t, list):
        return any(amlgen_has_call(v) for v in t)
    return False
