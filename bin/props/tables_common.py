"""Shared generation for the static-table properties (C01-C05, C11, C12): bounded-exhaustive histories from the TLC
model MC_Tables (spec -> impl), seeded random programs and long boundary histories (impl -> spec)."""
import concurrent.futures as cf
import json
import os

import schema
import vlib

COUNT_KINDS = ["RHCT", "RIMT", "VIOT", "HEST", "RQSC"]


def write_cfg(ctx, name, depth, fillto=0, countbug=False, diagbug=False, invs=None):
    invs = invs or ["InvMech", "InvC01", "InvC02", "InvC03", "InvC05", "InvC12", "EmitInv"]
    p = ctx.path(name + ".cfg")
    with open(p, "w") as f:
        f.write("SPECIFICATION Spec\nCONSTANTS\n  Depth = %d\n  FillTo = %d\n  CountBug = %s\n  DiagBug = %s\n" %
                (depth, fillto, "TRUE" if countbug else "FALSE", "TRUE" if diagbug else "FALSE"))
        f.write("INVARIANTS " + " ".join(invs) + "\nCHECK_DEADLOCK FALSE\n")
    return p


def mc_replays(ctx, kinds, depth, workers=12, maxref=3, salts=(1, 2), name="mc", fillto=0, invs=None, timeout=3600, defaults=False, related=False):
    """Model check MC_Tables over `kinds` to `depth`; returns the leaf histories as harness programs."""
    md = schema.menu_data(kinds, salts=salts, maxref=maxref, defaults=defaults, related=related)
    mpath = ctx.path(name + ".menu.json")
    with open(mpath, "w") as f:
        json.dump(md, f)
    cfg = write_cfg(ctx, name, depth, fillto=fillto, invs=invs)
    res = vlib.model_check(ctx, cfg, "MC_Tables.tla", workers=workers, env={"MENU": mpath, "KINDS": ""}, timeout=timeout, xmx="8g")
    progs = [schema.program_of(md, r["kind"], r["path"]) for r in res.replays]
    return progs


def sim_replays(ctx, kinds, depth, num, name="sim", maxref=3, cap=2500):
    """Longer behaviours of MC_Tables chosen by TLC's simulator (seeded), as harness programs."""
    md = schema.menu_data(kinds, salts=(1, 2), maxref=maxref)
    mpath = ctx.path(name + ".menu.json")
    with open(mpath, "w") as f:
        json.dump(md, f)
    cfg = write_cfg(ctx, name, depth, invs=["InvMech", "InvC01", "InvC02", "EmitInv"])
    reps = vlib.simulate(ctx, cfg, "MC_Tables.tla", num=num, depth=depth + 1, seed=ctx.seed, env={"MENU": mpath, "KINDS": ""}, timeout=1200)
    reps = [r for r in reps if len(r["path"]) == depth][:cap]
    return [schema.program_of(md, r["kind"], r["path"]) for r in reps]


def mc_replays_parallel(ctx, jobs, name="mc"):
    """jobs: list of (kinds, depth, fillto) run as independent TLC processes."""
    out = []

    def one(i):
        kinds, depth, fillto = jobs[i]
        return mc_replays(ctx, kinds, depth, workers=max(2, (vlib.NCPU - 2) // max(1, len(jobs))), name=f"{name}{i}", fillto=fillto)

    with cf.ThreadPoolExecutor(max_workers=len(jobs)) as ex:
        for progs in ex.map(one, range(len(jobs))):
            out += progs
    return out


DEFAULT_INVS = ["InvMech", "InvC01", "InvC02", "InvC05", "EmitInv"]     # Default-built entries have no type / length of their own (no walk)


def default_programs(ctx, rng, th, name="mcdef", kinds=None):
    """Histories that mix constructor-built entries with entries obtained from the entry types' Default: every such
    history of MC_Tables to depth 3 (2 with the quick tier's full menus), seeded random ones, and one long one per table."""
    kinds = kinds or sorted(schema.DEFAULTS)
    progs = mc_replays(ctx, kinds, 3 if (th or len(kinds) == 1) else 2, workers=8, maxref=1, salts=(1,), name=name, invs=DEFAULT_INVS, defaults=True)
    progs = [p for p in progs if any(o["op"] == "add_default" for o in p["ops"])]
    progs += random_programs(rng, kinds, 600 if th else 120, [1, 2, 3, 5, 9, 20], defaults=True)
    for k in kinds:
        g = schema.TableGen(schema.Rand(rng), k)
        for i in range(300):
            if i % 2:
                g.add_default()
            else:
                g.add(maxcalls=1)
        progs.append(g.program())
    return progs


RANGE_KINDS = ["MCFG", "VIOT", "SRAT", "CEDT", "XSDT", "HMAT"]      # tables whose entries describe ranges / windows


def related_programs(rng, th, kinds=None, ctx=None):
    """histories in which an operation's arguments derive from the previous operation's (duplicate, next id, the range
    that continues the previous range, a near miss of that): schema.related_programs; with ctx also every history to
    depth 3 of MC_Tables over menus that contain each add operation together with its continuation(s)"""
    progs = schema.related_programs(rng, kinds, reps=3 if th else 1)
    progs += schema.alternating_programs(rng, kinds, steps=24 if th else 12, maxpairs=60 if th else 20)     # A B A B ... histories
    if ctx is not None:
        ks = [k for k in RANGE_KINDS if kinds is None or k in kinds]
        if ks:
            progs += mc_replays(ctx, ks, 3, workers=8, maxref=1, salts=(1,), name="mcrel", related=True)
    return progs


def random_programs(rng, kinds, n, nops, maxcalls=4, defaults=False):
    progs = []
    for i in range(n):
        kind = kinds[i % len(kinds)]
        k = nops if isinstance(nops, int) else rng.choice(nops)
        p = schema.random_program(rng, kind, k, maxcalls, defaults=defaults)
        if i % 5 == 4 and kind not in ("FADT", "TCPA_SERVER"):
            p["shadow"] = True          # a second builder of the same type is alive and growing in lock-step
        if i % 7 == 3:
            p = schema.saturate(p, False)   # every scalar argument zero ("value == 0" must not read as "not supplied")
        elif i % 11 == 5:
            p = schema.saturate(p, True)    # every scalar argument all-ones
        elif i % 13 == 6:
            p = schema.equalize(p, rng)     # all scalars of one width equal (base == length, equal ids, ...)
        progs.append(p)
    return progs


def long_program(rng, kind, n, observe_every, full_limit=1 << 20, filler=None, summary=False):
    """A long history that carries count and length fields across byte boundaries."""
    g = schema.TableGen(schema.Rand(rng), kind)
    for i in range(n):
        if filler and i % 7 != 0:
            if not g.add(filler, maxcalls=1):
                g.add(maxcalls=1)
        else:
            if not g.add(maxcalls=1):
                break
    p = g.program()
    p["observe_every"] = observe_every
    p["full_limit"] = full_limit
    if summary:
        p["summary"] = True
    return p


def judge(ctx, programs, name, chunks=None, timeout=3600):
    return vlib.run_and_judge(ctx, programs, "Trace_Tables.cfg", "Trace_Tables.tla", name, chunks=chunks, timeout=timeout)


def distinct(programs):
    return {json.dumps(p, sort_keys=True) for p in programs}


def sample(programs, k=3):
    if not programs:
        return []
    step = max(1, len(programs) // k)
    return [programs[i] for i in range(0, len(programs), step)][:k]


def far_programs(rng, th):
    """Tables larger than 64 KiB, with late handles used by later nodes (offsets and lengths beyond 16 bits)."""
    far = []
    src = schema.Rand(rng)
    g = schema.TableGen(src, "RIMT")
    for i in range(700 if not th else 1500):
        g.ops.append({"op": "add_iommu", "a": {"id": src.scalar(2), "wires": [{"num": src.scalar(4), "level": True, "high": False, "aplic": src.scalar(2)}] * 10}, "calls": []})
        g.h["iommu"].append(len(g.ops))
        if i % 100 == 99:
            g.h["iommu"] = g.h["iommu"][-3:]
            g.add("add_pcie_root_complex")
            g.add("add_platform")
    far.append(dict(g.program(), observe_every=350, full_limit=1 << 22))
    g = schema.TableGen(src, "PPTT")
    g.add("add_cache")
    for i in range(330 if not th else 900):
        g.ops.append({"op": "add_processor", "a": {"parent": g.h["proc"][-1] if g.h["proc"] else 0, "id": src.scalar(4)},
                      "calls": [{"o": "add_cache", "a": {"ref": g.h["cache"][-1]}}] * 50})
        g.h["proc"].append(len(g.ops))
        if i % 60 == 59:
            g.add("add_cache")
            g.h["cache"] = g.h["cache"][-1:]
    far.append(dict(g.program(), observe_every=150, full_limit=1 << 22))
    g = schema.TableGen(src, "RHCT")
    for i in range(340 if not th else 900):
        g.ops.append({"op": "add_isa_string", "a": {"str": [97 + (i % 26)] * (199 + i % 2)}, "calls": []})
        g.h["isa"].append(len(g.ops))
        if i % 50 == 49:
            g.h["isa"] = g.h["isa"][-2:]
            g.add("add_cmo")
            g.h["cmo"] = g.h["cmo"][-1:]
            g.add("add_hart_info")
    far.append(dict(g.program(), observe_every=170, full_limit=1 << 22))
    return far


HDR0 = {"oem_id": [1, 2, 3, 4, 5, 6], "oem_table_id": [1, 2, 3, 4, 5, 6, 7, 8], "oem_rev": [9, 0, 0, 0], "timebase": [0] * 8}


def refusal_programs(rng):
    """Histories with a refused operation in the middle (oversize entry, out-of-range index, duplicate IMSIC, second log
    area, bad PCI address): the caller may catch the refusal and go on; the table must then be as if it had not happened."""
    src = schema.Rand(rng)
    out = []

    def T(kind, ops, **ctor):
        out.append({"fam": "table", "kind": kind, "ctor": dict(HDR0, **ctor), "ops": ops, "full_limit": 1 << 22})

    cache = {"op": "add_cache", "a": {}, "calls": [{"o": "size", "a": {"v": src.scalar(4)}}]}
    proc = lambda parent, k: {"op": "add_processor", "a": {"parent": parent, "id": src.scalar(4)}, "calls": [{"o": "add_cache", "a": {"ref": 1}}] * k}
    T("PPTT", [cache, proc(0, 2), proc(2, 59), cache, proc(2, 3), proc(5, 100), cache, proc(5, 1)])
    isa = lambda n: {"op": "add_isa_string", "a": {"str": [114] * n}, "calls": []}
    cmo = {"op": "add_cmo", "a": {"cbom": [6], "cbop": [6], "cboz": [6]}, "calls": []}
    hart = lambda i, c, k: {"op": "add_hart_info", "a": {"uid": src.scalar(4), "isa": i}, "calls": [{"o": "with_cmo", "a": {"ref": c}}] * k}
    T("RHCT", [isa(5), cmo, isa(65530), isa(6), hart(1, 2, 16380), cmo, hart(4, 6, 2), isa(7), hart(8, 2, 1)])
    wire = {"num": [1, 0, 0, 0], "level": True, "high": False, "aplic": [2, 0]}
    io = lambda n: {"op": "add_iommu", "a": {"id": [n % 256, 0], "wires": [wire] * n}, "calls": []}
    mp = lambda r: {"src": [1, 0, 0, 0], "dst": [2, 0, 0, 0], "n": [3, 0, 0, 0], "iommu": r, "ats": True, "pri": False, "rciep": False}
    rc = lambda r, m: {"op": "add_pcie_root_complex", "a": {"id": [2, 0], "seg": [0, 0], "ats": False, "pri": True, "maps": [mp(r)] * m}, "calls": []}
    plat = lambda r, n: {"op": "add_platform", "a": {"id": [3, 0], "name": [80] * n, "maps": [mp(r)]}, "calls": []}
    T("RIMT", [io(2), io(8188), io(3), rc(3, 2), rc(1, 3276), io(1), plat(1, 70000), rc(6, 1), plat(6, 5)])
    chbs = {"op": "add_host_bridge", "a": {"uid": src.scalar(4), "version": "Cxl2", "base": src.scalar(8)}, "calls": []}
    cxims = lambda n: {"op": "add_xor_interleave_math", "a": {"gran": "Granularity1kb"}, "calls": [{"o": "add_xormap", "a": {"v": src.scalar(8)}}] * n}
    cfm = lambda ways, n: {"op": "add_fixed_memory", "a": {"base": src.scalar(8), "size": src.scalar(8), "arith": "Modulo", "gran": "Granularity256b", "ways": ways, "qtg": [1, 0]},
                           "calls": [{"o": "add_target", "a": {"v": src.raw(4)}}] * n}
    rdpas = lambda dev: {"op": "add_port_association", "a": {"seg": [1, 0], "bus": [2], "dev": [dev], "fn": [1], "proto": "CxlIo", "base": src.scalar(8)}, "calls": []}
    T("CEDT", [chbs, cxims(2), cxims(256), chbs, cfm("Ways2", 2), cfm("Ways4", 3), cfm("Ways1", 2), cxims(1), rdpas(32), rdpas(3), cfm("Ways3", 3)])
    msci = lambda n: {"op": "add_memory_side_cache", "a": {"pxm": src.scalar(4), "size": src.scalar(8), "total": "Two", "this": "One", "assoc": "Complex", "policy": "Writeback", "line": [64, 0]},
                      "calls": [{"o": "add_smbios_handle", "a": {"v": [i % 256, i // 256 % 256]}} for i in range(n)]}
    mpda = {"op": "add_memory_proximity", "a": {"init": src.scalar(4), "mem": src.scalar(4)}, "calls": []}
    sll = lambda calls: {"op": "add_system_locality", "a": {"loc": "Memory", "dtype": "ReadLatency", "mts": "Size64b", "base_unit": src.scalar(8), "ni": 2, "nt": 3}, "calls": calls}
    sv = lambda i, j: {"o": "set_entry_value", "a": {"i": i, "j": j, "v": src.scalar(2)}}
    T("HMAT", [mpda, msci(3), msci(65536), mpda, sll([sv(1, 2)]), sll([sv(1, 2), sv(2, 0)]), sll([sv(0, 3)]), sll([sv(1, 1), {"o": "set_target_value", "a": {"idx": 3, "v": [1, 0, 0, 0]}}]), msci(1), sll([sv(0, 0)])])
    reg = {"space": "SystemMemory", "width": [64], "offset": [0], "access": "QwordAccess", "addr": [0] * 8}
    res = {"rtype": "Cache", "flags": [0, 0], "id": {"t": "cache", "cache_id": [1, 0, 0, 0]}}
    qos = lambda n: {"op": "add_controller", "a": {"type": "Capacity", "reg": reg, "rcid": src.scalar(4), "mcid": src.scalar(4), "flags": src.scalar(2)}, "calls": [{"o": "add_resource", "a": {"v": res}}] * n}
    T("RQSC", [qos(1), qos(3276), qos(2), qos(4000), qos(0)])
    im = {"op": "add_imsic", "a": {"s_ids": [1, 0], "g_ids": [1, 0], "guest_bits": [1], "hart_bits": [1], "group_bits": [1], "group_shift": [1]}, "calls": []}
    gicr = {"op": "add_gicr", "a": {"base": src.scalar(8), "length": src.scalar(4)}, "calls": []}
    T("MADT", [gicr, im, gicr, im, gicr, im], lic="Riscv")
    T("TPM2", [{"op": "set_log_area", "a": {"min_len": src.scalar(4), "base": src.scalar(8)}}, {"op": "set_log_area", "a": {"min_len": src.scalar(4), "base": src.scalar(8)}}],
      **{"class": "Server", "base": src.scalar(8), "start": "Mmio"})
    sd = lambda a, b, v: {"op": "set_distance", "a": {"a": a, "b": b, "v": [v]}}
    T("SLIT", [sd(0, 1, 20), sd(4, 0, 33), sd(1, 2, 21), sd(0, 4, 34), sd(5, 0, 35), sd(3, 3, 36), sd(2, 7, 37), sd(1, 0, 22), sd(4, 4, 38), sd(3, 2, 23)], n=4)
    pci = lambda dev, fn: {"seg": [1, 0], "bus": [2], "dev": [dev], "fn": [fn]}
    gi = lambda dev, fn: {"op": "add_generic_initiator", "a": {"pxm": src.scalar(4), "handle": dict(pci(dev, fn), t="pci")}, "calls": [{"o": "enabled", "a": {}}]}
    T("SRAT", [gi(1, 1), gi(32, 0), gi(2, 2), gi(0, 8), gi(3, 3)])
    vp = lambda dev: {"op": "add_virtio_pci_iommu", "a": {"pci": pci(dev, 0)}, "calls": []}
    T("VIOT", [vp(1), vp(40), vp(2), {"op": "add_mmio_endpoint", "a": {"ep": [1, 0, 0, 0], "base": src.scalar(8), "ref": 3}, "calls": []}])
    aer = lambda dev: {"op": "add_aer_device", "a": {"ctor": "port", "ff": "Enabled", "pci": {"bus": [2], "dev": [dev], "fn": [1]}}, "calls": []}
    T("HEST", [aer(1), aer(33), aer(2)])
    T("TCPA_SERVER", [{"op": "pci_sbdf", "a": {"seg": [1], "bus": [2], "dev": [40], "fn": [1]}}, {"op": "active_low", "a": {}}, {"op": "pci_sbdf", "a": {"seg": [1], "bus": [2], "dev": [4], "fn": [9]}},
                      {"op": "pci_sbdf", "a": {"seg": [1], "bus": [2], "dev": [4], "fn": [1]}}])
    return out
