"""Shared generation for the static-table properties (C01-C05, C11, C12): bounded-exhaustive histories from the TLC
model MC_Tables (spec -> impl), seeded random programs and long boundary histories (impl -> spec)."""
import concurrent.futures as cf
import json
import os

import schema
import vlib

COUNT_KINDS = ["RHCT", "RIMT", "VIOT", "HEST", "RQSC"]


def write_cfg(ctx, name, depth, fillto=0, countbug=False, diagbug=False, invs=None):
    invs = invs or ["InvMech", "InvC01", "InvC02", "InvC03", "InvC05", "InvC12", "EmitInv"]
    p = ctx.path(name + ".cfg")
    with open(p, "w") as f:
        f.write("SPECIFICATION Spec\nCONSTANTS\n  Depth = %d\n  FillTo = %d\n  CountBug = %s\n  DiagBug = %s\n" %
                (depth, fillto, "TRUE" if countbug else "FALSE", "TRUE" if diagbug else "FALSE"))
        f.write("INVARIANTS " + " ".join(invs) + "\nCHECK_DEADLOCK FALSE\n")
    return p


def mc_replays(ctx, kinds, depth, workers=12, maxref=3, salts=(1, 2), name="mc", fillto=0, invs=None, timeout=3600):
    """Model check MC_Tables over `kinds` to `depth`; returns the leaf histories as harness programs."""
    md = schema.menu_data(kinds, salts=salts, maxref=maxref)
    mpath = ctx.path(name + ".menu.json")
    with open(mpath, "w") as f:
        json.dump(md, f)
    cfg = write_cfg(ctx, name, depth, fillto=fillto, invs=invs)
    res = vlib.model_check(ctx, cfg, "MC_Tables.tla", workers=workers, env={"MENU": mpath, "KINDS": ""}, timeout=timeout, xmx="8g")
    progs = [schema.program_of(md, r["kind"], r["path"]) for r in res.replays]
    return progs


def mc_replays_parallel(ctx, jobs, name="mc"):
    """jobs: list of (kinds, depth, fillto) run as independent TLC processes."""
    out = []

    def one(i):
        kinds, depth, fillto = jobs[i]
        return mc_replays(ctx, kinds, depth, workers=max(2, (vlib.NCPU - 2) // max(1, len(jobs))), name=f"{name}{i}", fillto=fillto)

    with cf.ThreadPoolExecutor(max_workers=len(jobs)) as ex:
        for progs in ex.map(one, range(len(jobs))):
            out += progs
    return out


def random_programs(rng, kinds, n, nops, maxcalls=4):
    progs = []
    for i in range(n):
        kind = kinds[i % len(kinds)]
        k = nops if isinstance(nops, int) else rng.choice(nops)
        p = schema.random_program(rng, kind, k, maxcalls)
        if i % 5 == 4 and kind not in ("FADT", "TCPA_SERVER"):
            p["shadow"] = True          # a second builder of the same type is alive and growing in lock-step
        progs.append(p)
    return progs


def long_program(rng, kind, n, observe_every, full_limit=1 << 20, filler=None, summary=False):
    """A long history that carries count and length fields across byte boundaries."""
    g = schema.TableGen(schema.Rand(rng), kind)
    for i in range(n):
        if filler and i % 7 != 0:
            if not g.add(filler, maxcalls=1):
                g.add(maxcalls=1)
        else:
            if not g.add(maxcalls=1):
                break
    p = g.program()
    p["observe_every"] = observe_every
    p["full_limit"] = full_limit
    if summary:
        p["summary"] = True
    return p


def judge(ctx, programs, name, chunks=None, timeout=3600):
    return vlib.run_and_judge(ctx, programs, "Trace_Tables.cfg", "Trace_Tables.tla", name, chunks=chunks, timeout=timeout)


def distinct(programs):
    return {json.dumps(p, sort_keys=True) for p in programs}


def sample(programs, k=3):
    if not programs:
        return []
    step = max(1, len(programs) // k)
    return [programs[i] for i in range(0, len(programs), step)][:k]


def far_programs(rng, th):
    """Tables larger than 64 KiB, with late handles used by later nodes (offsets and lengths beyond 16 bits)."""
    far = []
    src = schema.Rand(rng)
    g = schema.TableGen(src, "RIMT")
    for i in range(700 if not th else 1500):
        g.ops.append({"op": "add_iommu", "a": {"id": src.scalar(2), "wires": [{"num": src.scalar(4), "level": True, "high": False, "aplic": src.scalar(2)}] * 10}, "calls": []})
        g.h["iommu"].append(len(g.ops))
        if i % 100 == 99:
            g.h["iommu"] = g.h["iommu"][-3:]
            g.add("add_pcie_root_complex")
            g.add("add_platform")
    far.append(dict(g.program(), observe_every=350, full_limit=1 << 22))
    g = schema.TableGen(src, "PPTT")
    g.add("add_cache")
    for i in range(330 if not th else 900):
        g.ops.append({"op": "add_processor", "a": {"parent": g.h["proc"][-1] if g.h["proc"] else 0, "id": src.scalar(4)},
                      "calls": [{"o": "add_cache", "a": {"ref": g.h["cache"][-1]}}] * 50})
        g.h["proc"].append(len(g.ops))
        if i % 60 == 59:
            g.add("add_cache")
            g.h["cache"] = g.h["cache"][-1:]
    far.append(dict(g.program(), observe_every=150, full_limit=1 << 22))
    g = schema.TableGen(src, "RHCT")
    for i in range(340 if not th else 900):
        g.ops.append({"op": "add_isa_string", "a": {"str": [97 + (i % 26)] * (199 + i % 2)}, "calls": []})
        g.h["isa"].append(len(g.ops))
        if i % 50 == 49:
            g.h["isa"] = g.h["isa"][-2:]
            g.add("add_cmo")
            g.h["cmo"] = g.h["cmo"][-1:]
            g.add("add_hart_info")
    far.append(dict(g.program(), observe_every=170, full_limit=1 << 22))
    return far
