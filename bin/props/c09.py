"""C09 - name paths encode to the specification's NameString form and back."""
import amlgen
import vlib
from props import aml_common as ac

LEAD = amlgen.LEAD
REST = amlgen.REST


def amlwf(s):
    """generator-side bookkeeping only (which list a string goes to); the judge decides well-formedness itself"""
    body = s[1:] if s.startswith("\\") else s
    return all(len(seg) == 4 for seg in body.split("."))


def run(ctx):
    rng = vlib.Rng(ctx.seed)
    th = ctx.thorough()
    vlib.model_check(ctx, "MC_AmlBase_misc.cfg", "MC_AmlBase.tla", workers=1, env={"LO": 0, "HI": 1})
    g = amlgen.G(rng)
    strs = []
    for c in range(1, 256):                                   # all segment counts, rooted or not
        for root in ("", "\\"):
            strs.append(root + ".".join(g.seg() for _ in range(c)))
    base = "ABCD"
    for pos in range(4):                                      # each character position over the whole alphabet
        for ch in (LEAD if pos == 0 else REST):
            s = base[:pos] + ch + base[pos + 1:]
            strs += [s, "\\" + s, "XY_Z." + s, s + ".Q012.R345"]
    for _ in range(20000 if th else 3000):                    # random combinations
        strs.append(("\\" if rng.chance(1, 2) else "") + ".".join(g.seg() for _ in range(rng.choice([1, 2, 3, 4, 7, 20]))))
    bad = ["", "\\", ".", "..", "A", "ABCDE", "ABCD.", ".ABCD", "\\.ABCD", "ABCD..EFGH", "\\\\ABCD", "^ABCD", "ABCD.EFG", "ABC.DEFG",
           "\\.", "\\ABCD.", "ABCD.EFGH.", "ABCD.EFGHI", "\\ABCD.EFGHI", "ABCD.EFGH.IJKLM", "A.B.C.D", "ABCD\\EFGH", "AB\u00e9D", "ABC\u00e9"]
    for nseg in range(1, 6):                                  # one segment of length 0..3 or 5..8 at every position
        for pos in range(nseg):
            for ln in (0, 1, 2, 3, 5, 6, 7, 8):
                segs = [g.seg() for _ in range(nseg)]
                segs[pos] = "".join(rng.choice(REST) for _ in range(ln))
                for root in ("", "\\"):
                    bad.append(root + ".".join(segs))
    # strings of the total length of a well-formed 1/2/3-segment path with the dots in every other arrangement
    import itertools
    for total in (4, 9, 14):
        for ndots in range(0, 4):
            for pos in itertools.combinations(range(total), ndots):
                if ndots > 2 and rng.below(4):       # a quarter of the 3-dot arrangements
                    continue
                s = "".join("." if i in pos else REST[(7 * i + total) % 26] for i in range(total))
                for root in ("", "\\"):
                    (strs if amlwf(root + s) else bad).append(root + s)
    # a treacherous character (case-mapping, non-ASCII digit/letter, white space, sign, ...) at every position
    for b in ("ABCD", "\\_SB_.PCI0", "AB_D.E123.F4__"):
        for v in amlgen.hostile_variants(b):
            (strs if amlwf(v) and all(c in REST + ".\\" for c in v) else bad).append(v)
    allstrs = strs + bad
    progs = []
    for what in ("path", "path_from"):
        for i in range(0, len(allstrs), 256):
            progs.append({"fam": "strs", "what": what, "strs": [amlgen.chars(s) for s in allstrs[i:i + 256]]})
    # as the name of every named object
    named = []
    for _ in range(600 if th else 120):
        gg = amlgen.G(rng)
        k = rng.choice(["Name", "Device", "Scope", "Method", "Mutex", "OpRegion", "Field", "PowerResource", "MethodCall", "Acquire", "Release"])
        named.append(amlgen.prog(gg, gg.make(k, gg.leaf)))
    ctx.samples = [strs[3], strs[700], bad[20], named[0]]
    ctx.n = 2 * len(allstrs) + len(named)
    ctx.distinct = set(allstrs)
    ac.judge(ctx, progs + named, "c09")
    ac.judge(ctx, progs[::2] + named, "c09chk", profile="checked")
    return vlib.finish(ctx, rule="paths: all segment counts 1..255 rooted and unrooted, every character position over the full "
                       "alphabet [A-Z_][A-Z0-9_], seeded random combinations; malformed: empty, lone backslash, and one segment of "
                       "length 0..3 or 5..8 at every position of 1..5-segment paths; through Path::new and From<&str>, and as the name "
                       "of every named object; predicate: well-formed => bytes = NameEnc(ParsePath(s)) and NameDec returns the same "
                       "rootedness and segments; malformed => refused (panic, no bytes)")
