"""C12 - locality matrices hold, per cell, the last value assigned to that cell."""
import schema
import vlib
from props import tables_common as tc


def slit_program(rng, n, steps):
    g = schema.TableGen(schema.Rand(rng), "SLIT")
    g.ctor["n"] = n
    for _ in range(steps):
        g.add("set_distance")
    return g.program()


def hmat_program(rng, ni, nt, steps):
    s = schema.Rand(rng)
    g = schema.TableGen(s, "HMAT")
    g.add("add_system_locality", maxcalls=0)
    e = g.ops[-1]
    e["a"]["ni"], e["a"]["nt"] = ni, nt
    e["calls"] = []
    for _ in range(steps):
        if ni and nt:
            e["calls"].append({"o": "set_entry_value", "a": {"i": s.below(ni), "j": s.below(nt), "v": s.scalar(2)}})
    if s.chance(1, 2):
        g.add("add_memory_proximity")
    return g.program()


def all_hmat_small(maxlen):
    """every shape 1x1..3x3 (incl. single row / column) x every assignment sequence up to maxlen over all cells, 2 values"""
    import itertools
    base = schema.TableGen(schema.Pattern(5), "HMAT")
    base.add("add_system_locality", maxcalls=0)
    proto = base.ops[-1]
    out = []
    for ni in (1, 2, 3):
        for nt in (1, 2, 3):
            cells = [(i, j) for i in range(ni) for j in range(nt)]
            acts = [(i, j, v) for (i, j) in cells for v in ([7, 1], [255, 254])]
            for k in range(0, maxlen + 1):
                if len(acts) ** k > 4000:
                    continue
                for seq in itertools.product(acts, repeat=k):
                    e = {"op": "add_system_locality", "a": dict(proto["a"], ni=ni, nt=nt),
                         "calls": [{"o": "set_entry_value", "a": {"i": i, "j": j, "v": v}} for (i, j, v) in seq]}
                    out.append({"fam": "table", "kind": "HMAT", "ctor": base.ctor, "ops": [e]})
    return out


def run(ctx):
    rng = vlib.Rng(ctx.seed)
    th = ctx.thorough()
    # the index arithmetic for ALL shapes (Apalache, symbolic); the stride-by-initiators variant must be refuted
    import concurrent.futures as cf
    with cf.ThreadPoolExecutor(max_workers=2) as ex:
        common = ["--init=Init", "--next=Next", "--inv=Inv", "--length=0"]
        a = ex.submit(vlib.apalache, ctx, "APA_Matrix.tla", ["--cinit=ConstOk"] + common, "ok")
        b = ex.submit(vlib.apalache, ctx, "APA_Matrix.tla", ["--cinit=ConstBug"] + common, "bug")
        (ra, ta), (rb, tb) = a.result(), b.result()
    if ra == "error":
        raise vlib.ToolError("Apalache refutes the matrix index theorem of the specification (APA_Matrix)")
    if rb == "ok":
        raise vlib.ToolError("APA_Matrix: the stride-by-initiators variant was not refuted -- the theorem is vacuous")
    ctx.extra["apalache"] = {"module": "APA_Matrix.tla", "index_theorem": ra, "stride_bug_refuted": rb == "error", "wall_s": [ta, tb],
                             "domain": "all shapes 1..65535 x 1..65535, all cells (symbolic)"}
    # SLIT: all assignment sequences over all cells of a 3x3 matrix (diagonal, mirrored, repeated), 2 values: MC_Tables
    progs = tc.mc_replays(ctx, ["SLIT"], 4 if th else 3, workers=8)
    progs += tc.mc_replays(ctx, ["HMAT"], 3 if th else 2, workers=6, name="mch")
    hm = all_hmat_small(3 if th else 2)
    rnd = []
    for i in range(300 if th else 60):
        rnd.append(slit_program(rng, rng.choice([1, 2, 3, 4, 5, 8, 16, 40 if th else 12]), rng.choice([1, 5, 30, 200 if th else 60])))
        rnd.append(hmat_program(rng, rng.choice([1, 1, 2, 3, 5, 16]), rng.choice([1, 1, 2, 3, 4, 16]), rng.choice([1, 5, 30, 100])))
    # large matrices observed once at the end: index arithmetic far from the small shapes (row 255/256, 100 x 100 entries)
    for n in ((100, 255, 256, 300) if th else (100, 256)):
        p = slit_program(rng, n, 40)
        for k, (a, b) in enumerate([(0, 0), (n - 1, n - 1), (0, n - 1), (n - 1, 0), (n // 2, n // 2 + 1), (1, n - 2)]):
            p["ops"][k]["a"]["a"], p["ops"][k]["a"]["b"] = a, b
        p["observe_every"] = 1000
        rnd.append(p)
    for ni, nt in (((100, 100), (255, 3), (3, 255), (256, 2), (1, 300)) if th else ((100, 100), (256, 2), (3, 255))):
        p = hmat_program(rng, ni, nt, 60)
        cs = p["ops"][0]["calls"]
        for k, (i, j) in enumerate([(0, 0), (ni - 1, nt - 1), (0, nt - 1), (ni - 1, 0)]):
            cs[k]["a"]["i"], cs[k]["a"]["j"] = i, j
        rnd.append(p)
    programs = progs + hm + rnd + [p for p in tc.refusal_programs(rng) if p["kind"] in ("SLIT", "HMAT")]
    ctx.samples = tc.sample(progs, 1) + tc.sample(hm, 1) + tc.sample(rnd, 1)
    ctx.distinct = tc.distinct(programs)
    tc.judge(ctx, programs, "c12")
    vlib.run_and_judge(ctx, rnd, "Trace_Tables.cfg", "Trace_Tables.tla", "c12chk", profile="checked")
    return vlib.finish(ctx, rule="SLIT: all assignment sequences to the depth bound over all 9 cells of a 3x3 matrix x 2 values "
                       "(MC_Tables) + random shapes to 16x16/40 localities; HMAT: all shapes 1x1..3x3 x all assignment sequences "
                       "(length <= 2 quick / 3 thorough) + random shapes incl. single row/column; predicate: matrix region of the "
                       "observed image = row-major projection (stride = number of targets) of the specification's last-writer "
                       "map, every in-range pair accepted, checksum valid")
