"""C06 - emitted AML parses back to exactly the term tree the caller built."""
import amlgen
import vlib
from props import aml_common as ac


def q8(g):
    """a QWord address space descriptor (46 bytes): 1425 of them carry a template's payload past 65535 bytes"""
    d = g.descriptor("AddrSpace")
    while d["w"] != 8:
        d = g.descriptor("AddrSpace")
    return d


def run(ctx):
    rng = vlib.Rng(ctx.seed)
    th = ctx.thorough()
    # (a)+(b) the specification's own bounded tree generator: every constructor / operator variant in every child
    # position of every other constructor (depth 2 complete); TLC checks the round trip on each and prints it
    gen = vlib.model_check(ctx, "MC_AmlGen.cfg", "MC_AmlGen.tla", workers=8)
    progs = list(gen.replays)
    ctx.extra["tlc_generated_trees"] = len(progs)
    progs += amlgen.all_variants(rng) + amlgen.all_pairs(rng)       # the same shapes again with seeded random arguments
    progs += amlgen.all_leaf_sizes(rng)                               # every encoded-size class of every leaf kind in every slot
    if th:
        progs += amlgen.all_pairs(vlib.Rng(ctx.seed + 1)) + amlgen.all_pairs(vlib.Rng(ctx.seed + 2))
    for _ in range(20000 if th else 2500):
        progs.append(amlgen.random_tree(rng, rng.choice([1, 2, 3, 4, 5, 6])))
    import schema
    for _ in range(3000 if th else 400):      # trees in which all integer operands of one width coincide
        t = amlgen.random_tree(rng, rng.choice([2, 3, 4]))
        t["tree"] = schema.equalize(t["tree"], rng)
        progs.append(t)
    # body sizes on both sides of every PkgLength width boundary, nested so that inner width changes shift outer ones
    ranges = [(56, 70), (4084, 4100)]
    # buffer-size integer widths (255/256, 65535/65536) and 2^16 bytes of package / scope payload
    progs += amlgen.boundary_trees(rng, [(250, 260)], kinds=["BufferData", "Package", "Scope"], nested=False)
    progs += amlgen.boundary_trees(rng, [(65525, 65540)], kinds=["BufferData", "Package", "PackageBuilder", "Scope", "Method"], nested=False)
    progs += amlgen.boundary_trees(rng, ranges, kinds=amlgen.FRAMED if th else ["Package", "Scope", "Method", "If", "Device", "BufferData", "Field", "PowerResource"])
    if th:
        progs += amlgen.boundary_trees(rng, [(1048565, 1048580)], kinds=["Scope", "Package", "Method", "BufferData"], nested=False)
    # resource templates whose payload crosses the buffer-size integer widths (255/256) and 4095/4096
    for n in list(range(0, 16)) + [40, 100, 180 if th else 120]:
        g = amlgen.G(rng)
        progs.append(amlgen.prog(g, g.template(n), tag="template/%d" % n))
        progs.append(amlgen.prog(g, {"t": "Name", "path": g.path(), "v": g.template(n)}, tag="named_template/%d" % n))
    for n in (1425, 1500):
        g = amlgen.G(rng)
        progs.append(amlgen.prog(g, {"t": "ResourceTemplate", "ch": [q8(g) for _ in range(n)]}, tag="template/%d" % n))
    progs += amlgen.many_children(rng, th)                            # breadth (thousands of children) and depth (chains of 8..40)
    progs += [amlgen.with_equal_children(amlgen.random_tree(rng, rng.choice([2, 3, 4])), rng) for _ in range(2000 if th else 300)]   # equal siblings / operands
    # the boundary objects again as children of a container: a length inside another length
    progs += [amlgen.wrapped(p, i) for i, p in enumerate(progs) if p.get("tag", "").split("/")[0] in amlgen.FRAMED + ["template", "named_template"] and not p.get("summary")][::1 if th else 2]
    ctx.samples = [progs[0], progs[len(progs) // 2], progs[-1]]
    ctx.distinct = ac.distinct(progs)
    ac.mc_corpus(ctx, progs if th else progs[::4], pieces=12)
    ac.judge(ctx, progs, "c06")
    ac.judge(ctx, progs[-3000:], "c06chk", profile="checked")     # also on the build with integer-overflow checks
    ctx.extra["builds"] = ["release", "checked (overflow checks + debug assertions) for a sample"]
    return vlib.finish(ctx, rule="term trees: every operator/enum variant at the root, every constructor in every child position of "
                       "every other constructor (depth 2 complete), seeded random trees to depth 6, bodies on both sides of the "
                       "63/64 and 4095/4096 (thorough: 2^20) PkgLength boundaries incl. nested; predicate: the independent parser "
                       "AmlDec consumes the observed bytes completely, every delimited region exactly, and returns Norm(tree); "
                       "MC_AmlCorpus checks the same of the specification's own encoder first")
