"""C01 - every emitted static table carries a valid ACPI checksum (after construction and after every operation)."""
import schema
import vlib
from props import tables_common as tc


def run(ctx):
    rng = vlib.Rng(ctx.seed)
    th = ctx.thorough()
    kinds = schema.ALL_KINDS
    # (a)+(b): every history up to the depth bound over every table kind (incl. the empty history, optional calls never
    # made, repeated writes to one matrix cell, diagonal cells); TLC checks the design and prints the histories
    # boundary: count fields across 255 -> 256 entries on the specification's mechanism (and below on the crate)
    import concurrent.futures as cf
    with cf.ThreadPoolExecutor(max_workers=6) as ex:
        main = ex.submit(tc.mc_replays, ctx, kinds, 4 if th else 3, 10, 2 if th else 3)
        bs = [ex.submit(tc.mc_replays, ctx, [k], 258, 1, 3, (1, 2), "b" + k, 254, ["InvBoundary"]) for k in tc.COUNT_KINDS]
        progs = main.result()
        for b in bs:
            b.result()
    # inductive step of the delta maintenance for ALL Lengths, counts and entries (Apalache, symbolic); the "+1" count
    # accounting must be refuted (non-vacuity)
    with cf.ThreadPoolExecutor(max_workers=2) as ex:
        common = ["--init=Init", "--next=Next", "--inv=IndInv", "--length=1"]
        a = ex.submit(vlib.apalache, ctx, "APA_CkDelta.tla", ["--cinit=ConstOk"] + common, "ok")
        b = ex.submit(vlib.apalache, ctx, "APA_CkDelta.tla", ["--cinit=ConstBug"] + common, "bug")
        (ra, ta), (rb, tb) = a.result(), b.result()
    if ra == "error":
        raise vlib.ToolError("Apalache refutes the inductive step of the specification's checksum maintenance (APA_CkDelta)")
    if rb == "ok":
        raise vlib.ToolError("APA_CkDelta: the '+1' count accounting was not refuted -- the theorem is vacuous")
    ctx.extra["apalache"] = {"module": "APA_CkDelta.tla", "inductive_step": ra, "countbug_refuted": rb == "error", "wall_s": [ta, tb],
                             "domain": "all Length, count < 2^32, entry sizes 1..65535, entry byte sums 0..255 (symbolic)"}
    progs += tc.sim_replays(ctx, schema.BODY_KINDS + ["SLIT", "FADT", "TCPA_SERVER"], 9, 40 if th else 8)   # 9-step behaviours chosen by TLC
    longs = []
    for k in schema.BODY_KINDS:
        longs.append(tc.long_program(rng, k, 300, 1))                 # every step observed across 255/256 entries
    # Length across 65535 -> 65536 bytes: summary histories (generic observations of the image only), observed at
    # every step around the byte boundaries of Length and sparsely elsewhere
    fillers = {"XSDT": ("add_entry", 9000), "MCFG": ("add_ecam", 4500), "VIOT": ("add_virtio_mmio_iommu", 4000),
               "MADT": ("add_lapic", 9000), "RIMT": ("add_iommu", 2500), "HEST": ("add_aer_device", 1800),
               "SRAT": ("add_rintc_affinity", 4500), "CEDT": ("add_host_bridge", 2500), "RHCT": ("add_mmu_node", 9000),
               "PPTT": ("add_cache", 2800), "HMAT": ("add_memory_proximity", 2000), "RQSC": ("add_controller", 2500)}
    for k in (schema.BODY_KINDS if th else ["XSDT", "VIOT", "RIMT", "HEST", "RHCT"]):
        filler, n = fillers[k]
        longs.append(tc.long_program(rng, k, n, 1 if th else 3, filler=filler, summary=True))
    rnd = tc.random_programs(rng, kinds, 3000 if th else 400, [0, 1, 2, 5, 9, 20])
    programs = progs + longs + rnd
    ctx.samples = tc.sample(progs, 2) + [{"long_history": longs[0]["kind"], "ops": len(longs[0]["ops"])}]
    ctx.distinct = tc.distinct(progs + rnd) | {p["kind"] + str(len(p["ops"])) for p in longs}
    programs = programs + tc.far_programs(rng, th)          # full images beyond 64 KiB
    programs = programs + tc.refusal_programs(rng)          # refused operations in the middle of a history
    programs = programs + tc.default_programs(ctx, rng, th)  # entries obtained from the entry types' Default
    programs = programs + tc.related_programs(rng, th, ctx=ctx)   # duplicates, next ids, continuing ranges (seeded and TLC-enumerated)
    tc.judge(ctx, programs, "c01")
    # the seeded programs again on the build with integer-overflow checks and debug assertions
    vlib.run_and_judge(ctx, rnd + longs[:12], "Trace_Tables.cfg", "Trace_Tables.tla", "c01chk", profile="checked")
    ctx.extra["builds"] = ["release", "checked (overflow checks + debug assertions) for the seeded programs"]
    # the user-defined generic table (Sdt): every depth-2 history of MC_Sdt plus seeded long histories
    from props import c13
    res = vlib.model_check(ctx, "MC_Sdt_quick.cfg", "MC_Sdt.tla", workers=8)
    sdt = res.replays + [c13.random_history(rng, 1500 if th else 400, 10) for _ in range(30 if th else 8)]
    vlib.run_and_judge(ctx, sdt, "Trace_Sdt.cfg", "Trace_Sdt.tla", "c01sdt")
    return vlib.finish(ctx, rule="histories = all operation sequences of MC_Tables to the depth bound over all 21 table kinds "
                       "(TLC-enumerated, replayed on the crate) + 300-step histories per body table observed at every step + "
                       "65k-step histories observed sparsely + seeded random programs; predicate Sum8(image)=0 (RSDP: also the "
                       "first 20 bytes) judged by TLC after every observed operation; distinct = distinct programs")
