"""C05 - handles returned by add operations are true offsets of the node they name."""
import schema
import vlib
from props import tables_common as tc


def run(ctx):
    rng = vlib.Rng(ctx.seed)
    th = ctx.thorough()
    kinds = schema.HANDLE_KINDS
    progs = tc.mc_replays(ctx, kinds, 4, workers=14, maxref=3 if not th else 4, salts=(1,) if not th else (1, 2))
    rnd = tc.random_programs(rng, kinds, 3000 if th else 500, [2, 3, 5, 8, 13, 40, 200 if th else 60], maxcalls=5)
    # far handles: tables larger than 64 KiB, with late handles used by later nodes (offsets beyond 16 bits)
    far = []
    src = schema.Rand(rng)
    g = schema.TableGen(src, "RIMT")
    for i in range(700 if not th else 1500):
        g.ops.append({"op": "add_iommu", "a": {"id": src.scalar(2), "wires": [{"num": src.scalar(4), "level": True, "high": False, "aplic": src.scalar(2)}] * 10}, "calls": []})
        g.h["iommu"].append(len(g.ops))
        if i % 100 == 99:
            g.h["iommu"] = g.h["iommu"][-3:]
            g.add("add_pcie_root_complex")
            g.add("add_platform")
    far.append(dict(g.program(), observe_every=350, full_limit=1 << 22))
    g = schema.TableGen(src, "PPTT")
    g.add("add_cache")
    for i in range(330 if not th else 900):
        g.ops.append({"op": "add_processor", "a": {"parent": g.h["proc"][-1] if g.h["proc"] else 0, "id": src.scalar(4)},
                      "calls": [{"o": "add_cache", "a": {"ref": g.h["cache"][-1]}}] * 50})
        g.h["proc"].append(len(g.ops))
        if i % 60 == 59:
            g.add("add_cache")
            g.h["cache"] = g.h["cache"][-1:]
    far.append(dict(g.program(), observe_every=150, full_limit=1 << 22))
    g = schema.TableGen(src, "RHCT")
    for i in range(340 if not th else 900):
        g.ops.append({"op": "add_isa_string", "a": {"str": [97 + (i % 26)] * (199 + i % 2)}, "calls": []})
        g.h["isa"].append(len(g.ops))
        if i % 50 == 49:
            g.h["isa"] = g.h["isa"][-2:]
            g.add("add_cmo")
            g.h["cmo"] = g.h["cmo"][-1:]
            g.add("add_hart_info")
    far.append(dict(g.program(), observe_every=170, full_limit=1 << 22))
    programs = progs + rnd + far
    ctx.samples = tc.sample(progs, 2) + tc.sample(rnd, 1)
    ctx.distinct = tc.distinct(programs)
    tc.judge(ctx, programs, "c05")
    # the seeded programs again on the build with integer-overflow checks and debug assertions
    vlib.run_and_judge(ctx, rnd, "Trace_Tables.cfg", "Trace_Tables.tla", "c05chk", profile="checked")
    ctx.extra["builds"] = ["release", "checked (overflow checks + debug assertions) for the seeded programs"]
    return vlib.finish(ctx, rule="all interleavings of handle-returning and other adds of fixed and variable size over PPTT, "
                       "RHCT, RIMT, VIOT to depth 4 with every later use of every earlier handle (MC_Tables), plus random "
                       "topologies; predicate on every intermediate image: returned handle = offset of that node found by the "
                       "independent walker, node has the expected type, every reference field holds the handle verbatim and "
                       "resolves to the start of a node of the expected type")
