"""C05 - handles returned by add operations are true offsets of the node they name."""
import schema
import vlib
from props import tables_common as tc


def run(ctx):
    rng = vlib.Rng(ctx.seed)
    th = ctx.thorough()
    kinds = schema.HANDLE_KINDS
    progs = tc.mc_replays(ctx, kinds, 4, workers=14, maxref=3 if not th else 4, salts=(1,) if not th else (1, 2))
    rnd = tc.random_programs(rng, kinds, 3000 if th else 500, [2, 3, 5, 8, 13, 40, 200 if th else 60], maxcalls=5)
    far = tc.far_programs(rng, th)
    far += tc.refusal_programs(rng)       # refused adds in the middle of a history must not shift later handles
    far += tc.default_programs(ctx, rng, th, kinds=["PPTT"])   # Default-built cache nodes between the others
    far += tc.related_programs(rng, th, kinds=kinds, ctx=ctx)           # duplicates, next ids, continuing ranges (a merged node shifts offsets)
    programs = progs + rnd + far
    ctx.samples = tc.sample(progs, 2) + tc.sample(rnd, 1)
    ctx.distinct = tc.distinct(programs)
    tc.judge(ctx, programs, "c05")
    # the seeded programs again on the build with integer-overflow checks and debug assertions
    vlib.run_and_judge(ctx, rnd, "Trace_Tables.cfg", "Trace_Tables.tla", "c05chk", profile="checked")
    ctx.extra["builds"] = ["release", "checked (overflow checks + debug assertions) for the seeded programs"]
    return vlib.finish(ctx, rule="all interleavings of handle-returning and other adds of fixed and variable size over PPTT, "
                       "RHCT, RIMT, VIOT to depth 4 with every later use of every earlier handle (MC_Tables), plus random "
                       "topologies; predicate on every intermediate image: returned handle = offset of that node found by the "
                       "independent walker, node has the expected type, every reference field holds the handle verbatim and "
                       "resolves to the start of a node of the expected type")
