"""C05 - handles returned by add operations are true offsets of the node they name."""
import schema
import vlib
from props import tables_common as tc


def run(ctx):
    rng = vlib.Rng(ctx.seed)
    th = ctx.thorough()
    kinds = schema.HANDLE_KINDS
    progs = tc.mc_replays(ctx, kinds, 4, workers=14, maxref=3 if not th else 4, salts=(1,) if not th else (1, 2))
    rnd = tc.random_programs(rng, kinds, 3000 if th else 500, [2, 3, 5, 8, 13, 40, 200 if th else 60], maxcalls=5)
    far = tc.far_programs(rng, th)
    # a refused (oversize) add in the middle of a history: the handles returned afterwards must not be shifted by it
    cache = {"op": "add_cache", "a": {}, "calls": []}
    proc = lambda parent, k: {"op": "add_processor", "a": {"parent": parent, "id": [k, 0, 0, 0]}, "calls": [{"o": "add_cache", "a": {"ref": 1}}] * k}
    hdr = {"oem_id": [1, 2, 3, 4, 5, 6], "oem_table_id": [1, 2, 3, 4, 5, 6, 7, 8], "oem_rev": [9, 0, 0, 0], "timebase": [0] * 8}
    far.append({"fam": "table", "kind": "PPTT", "ctor": hdr, "ops": [cache, proc(0, 2), proc(2, 59), cache, proc(2, 3), proc(5, 100), cache, proc(5, 1)]})
    isa = lambda n: {"op": "add_isa_string", "a": {"str": [114] * n}, "calls": []}
    cmo = {"op": "add_cmo", "a": {"cbom": [6], "cbop": [6], "cboz": [6]}, "calls": []}
    hart = lambda i, c, k: {"op": "add_hart_info", "a": {"uid": [1, 0, 0, 0], "isa": i}, "calls": [{"o": "with_cmo", "a": {"ref": c}}] * k}
    far.append({"fam": "table", "kind": "RHCT", "ctor": hdr, "full_limit": 1 << 22,
                "ops": [isa(5), cmo, isa(65530), isa(6), hart(1, 2, 16380), cmo, hart(4, 6, 2), isa(7), hart(8, 2, 1)]})
    wire = {"num": [1, 0, 0, 0], "level": True, "high": False, "aplic": [2, 0]}
    io = lambda n: {"op": "add_iommu", "a": {"id": [n % 256, 0], "wires": [wire] * n}, "calls": []}
    mp = lambda r: {"src": [1, 0, 0, 0], "dst": [2, 0, 0, 0], "n": [3, 0, 0, 0], "iommu": r, "ats": True, "pri": False, "rciep": False}
    rc = lambda r, m: {"op": "add_pcie_root_complex", "a": {"id": [2, 0], "seg": [0, 0], "ats": False, "pri": True, "maps": [mp(r)] * m}, "calls": []}
    far.append({"fam": "table", "kind": "RIMT", "ctor": hdr, "full_limit": 1 << 22,
                "ops": [io(2), io(8188), io(3), rc(3, 2), rc(1, 3276), io(1), rc(6, 1)]})
    programs = progs + rnd + far
    ctx.samples = tc.sample(progs, 2) + tc.sample(rnd, 1)
    ctx.distinct = tc.distinct(programs)
    tc.judge(ctx, programs, "c05")
    # the seeded programs again on the build with integer-overflow checks and debug assertions
    vlib.run_and_judge(ctx, rnd, "Trace_Tables.cfg", "Trace_Tables.tla", "c05chk", profile="checked")
    ctx.extra["builds"] = ["release", "checked (overflow checks + debug assertions) for the seeded programs"]
    return vlib.finish(ctx, rule="all interleavings of handle-returning and other adds of fixed and variable size over PPTT, "
                       "RHCT, RIMT, VIOT to depth 4 with every later use of every earlier handle (MC_Tables), plus random "
                       "topologies; predicate on every intermediate image: returned handle = offset of that node found by the "
                       "independent walker, node has the expected type, every reference field holds the handle verbatim and "
                       "resolves to the start of a node of the expected type")
