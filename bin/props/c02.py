"""C02 - declared table length equals the number of bytes emitted (after construction and after every operation)."""
import schema
import vlib
from props import tables_common as tc


def run(ctx):
    rng = vlib.Rng(ctx.seed)
    th = ctx.thorough()
    kinds = schema.ALL_KINDS
    progs = tc.mc_replays(ctx, kinds, 4 if th else 3, workers=14, maxref=2 if th else 3)
    longs = [tc.long_program(rng, k, 300, 1) for k in schema.BODY_KINDS]        # every mixture step observed
    fillers = {"XSDT": ("add_entry", 9000), "MCFG": ("add_ecam", 4500), "VIOT": ("add_virtio_mmio_iommu", 4000),
               "MADT": ("add_lapic", 9000), "RIMT": ("add_iommu", 2500), "HEST": ("add_aer_device", 1800),
               "SRAT": ("add_rintc_affinity", 4500), "CEDT": ("add_host_bridge", 2500), "RHCT": ("add_mmu_node", 9000),
               "PPTT": ("add_cache", 2800), "HMAT": ("add_memory_proximity", 2000), "RQSC": ("add_controller", 2500)}
    for k in (schema.BODY_KINDS if th else ["MCFG", "MADT", "SRAT", "CEDT", "PPTT", "HMAT", "RQSC"]):
        filler, n = fillers[k]
        longs.append(tc.long_program(rng, k, n, 1 if th else 3, filler=filler, summary=True))   # Length across 2^16 bytes
    rnd = tc.random_programs(rng, kinds, 4000 if th else 600, [0, 1, 2, 3, 5, 9, 20], maxcalls=6)
    programs = progs + longs + rnd
    ctx.samples = tc.sample(progs, 2) + tc.sample(rnd, 1)
    ctx.distinct = tc.distinct(progs + rnd) | {p["kind"] + str(len(p["ops"])) for p in longs}
    programs = programs + tc.far_programs(rng, th)          # full images beyond 64 KiB
    programs = programs + tc.refusal_programs(rng)          # refused operations in the middle of a history
    programs = programs + tc.default_programs(ctx, rng, th)  # entries obtained from the entry types' Default
    programs = programs + tc.related_programs(rng, th, ctx=ctx)   # duplicates, next ids, continuing ranges (seeded and TLC-enumerated)
    tc.judge(ctx, programs, "c02")
    vlib.run_and_judge(ctx, rnd + longs[:12], "Trace_Tables.cfg", "Trace_Tables.tla", "c02chk", profile="checked")
    # the user-defined generic table (Sdt): Length after every kind of append
    from props import c13
    res = vlib.model_check(ctx, "MC_Sdt_quick.cfg", "MC_Sdt.tla", workers=8)
    sdt = res.replays + [c13.random_history(rng, 1500 if th else 400, 30) for _ in range(30 if th else 8)]
    vlib.run_and_judge(ctx, sdt, "Trace_Sdt.cfg", "Trace_Sdt.tla", "c02sdt")
    return vlib.finish(ctx, rule="same history sources as C01 (all MC_Tables histories to the depth bound, long mixtures, random "
                       "programs); predicate: the little-endian Length field (offset 4; RSDP offset 20) equals the number of bytes "
                       "the sink received, judged by TLC after every observed operation; independent of the crate's len() helpers")
