"""C08 - integer constants round-trip and use the narrowest AML encoding."""
import concurrent.futures as cf

import vlib
from props import aml_common as ac


def run(ctx):
    rng = vlib.Rng(ctx.seed)
    th = ctx.thorough()
    jobs = [("MC_AmlBase_InvInt.cfg", 0, 70000), ("MC_AmlBase_InvInt.cfg", 16777216 - 3000, 16777216 + 3000),
            ("MC_AmlBase_InvInt.cfg", 2147483647 - 5000, 2147483647), ("MC_AmlBase_misc.cfg", 0, 1)]
    if th:
        jobs += [("MC_AmlBase_InvInt.cfg", i * 4000000, i * 4000000 + 3999999) for i in range(1, 13)]
    with cf.ThreadPoolExecutor(max_workers=14) as ex:
        list(ex.map(lambda j: vlib.model_check(ctx, j[0], "MC_AmlBase.tla", workers=1, env={"LO": j[1], "HI": j[2]}, timeout=3600), jobs))
    # symbolic: for ALL dword values the narrowest-prefix encoding decodes back and no narrower prefix fits (Apalache)
    import os, subprocess, time
    t0 = time.time()
    try:
        r = subprocess.run(["apalache-mc", "check", "--length=0", "--inv=Inv", "--init=Init", "--next=Next",
                            "--out-dir=" + ctx.path("apalache"), os.path.join(vlib.SPEC, "APA_IntEnc.tla")],
                           cwd=ctx.dir, stdout=subprocess.PIPE, stderr=subprocess.STDOUT, text=True, timeout=600)
        ok = "EXITCODE: OK" in r.stdout and "NoError" in r.stdout
        if not ok and ("violat" in r.stdout.lower() or "EXITCODE: ERROR (12)" in r.stdout):
            raise vlib.ToolError("Apalache refutes the integer-constant theorem of the specification: " + r.stdout[-800:])
        ctx.extra["apalache"] = {"module": "APA_IntEnc.tla", "result": "NoError" if ok else "not run to completion",
                                 "domain": "all 0 <= v < 2^32 (symbolic); the QWord case is two dwords", "wall_s": round(time.time() - t0, 1)}
    except (subprocess.TimeoutExpired, FileNotFoundError) as e:
        ctx.extra["apalache"] = {"result": "unavailable: %s" % type(e).__name__}
    vals = set(range(0, 65536 + 300))                                   # all u8 and u16, each through every wider type
    for w in (8, 16, 32, 64):
        for d in range(-2, 3):
            vals.add(((1 << w) + d) & ((1 << 64) - 1))
            vals.add(((1 << (w - 1)) + d) & ((1 << 64) - 1))
    for i in range(64):
        vals.add(1 << i)
        vals.add(((1 << 64) - 1) ^ (1 << i))
        vals.add((1 << i) - 1)
    for b in range(256):
        for w in (1, 2, 4, 8):
            vals.add(int.from_bytes(bytes([b] * w), "little"))
    for _ in range(400000 if th else 50000):
        w = rng.choice([1, 2, 3, 4, 5, 6, 7, 8])
        vals.add(rng.next() & ((1 << (8 * w)) - 1))
    vals = sorted(vals)
    progs = [{"fam": "ints", "vals": [vlib.le(v, 8) for v in vals[i:i + 512]]} for i in range(0, len(vals), 512)]
    # embedded as operands: buffer sizes and package elements
    import amlgen
    emb = []
    for n in [0, 1, 2, 254, 255, 256, 257, 4095, 4096, 65535, 65536, 65537, 70000, 131072, 131073, 200000]:
        emb.append({"fam": "aml", "tree": {"t": "BufferFill", "n": n, "b": 7}, "arities": []})
    for v in [0, 1, 2, 255, 256, 65535, 65536, (1 << 32) - 1, 1 << 32, (1 << 64) - 1]:
        for ty, w in (("u8", 1), ("u16", 2), ("u32", 4), ("u64", 8), ("usize", 8)):
            if v < (1 << (8 * w)):
                emb.append({"fam": "aml", "tree": {"t": "Package", "ch": [{"t": "Int", "ty": ty, "v": vlib.le(v, w)}]}, "arities": []})
                emb.append({"fam": "aml", "tree": {"t": "Int", "ty": ty, "v": vlib.le(v, w)}, "arities": []})
    # resource templates: the BufferSize operand is the integer constant of the payload; 5 / 6 descriptors of 46 bytes
    # around 255/256 bytes and 1424 / 1425 / 1426 of them around 65535/65536
    g = amlgen.G(rng)

    def q8():
        d = g.descriptor("AddrSpace")
        while d["w"] != 8:
            d = g.descriptor("AddrSpace")
        return d
    for n in (0, 1, 5, 6, 88, 89, 90, 1424, 1425, 1426, 1500):
        emb.append({"fam": "aml", "tree": {"t": "ResourceTemplate", "ch": [q8() for _ in range(n)]}, "arities": [], "tag": "template/%d" % n})
    if th:
        # u32 values by digest tabulation through u32, u64 and usize: every chunk of 65536 values below 2^24, every
        # 64th chunk above, and the chunks around the sign and top boundaries
        bases = sorted(set(range(0, 256)) | set(range(256, 65536, 64)) | {0x7FFE, 0x7FFF, 0x8000, 0x8001, 0xFFFE, 0xFFFF, 0x00FF, 0x0100})
        before = len(ctx.fails)
        ac.judge(ctx, ac.sweep_programs("u32", bases, 65536, 4), "c08sweep", timeout=7200)
        ac.refine_sweep_failures(ctx, ctx.fails[before:], "c08sweep")
        ctx.extra["u32_sweep"] = "%d chunks x 65536 values x 3 carrier types by digest tabulation (all values < 2^24 included)" % len(bases)
    ctx.samples = [{"fam": "ints", "vals": [vlib.le(v, 8) for v in vals[250:260]]}, emb[5]]
    ctx.n = 3 * len(vals)
    ctx.distinct = set(vals)
    ac.judge(ctx, progs + emb, "c08")
    ac.judge(ctx, progs[::3] + emb, "c08chk", profile="checked")
    return vlib.finish(ctx, rule="values: all u8 and u16 exhaustively, every width boundary +-2, all single-bit / all-but-one-bit / "
                       "low-mask and byte-fill patterns, seeded random values of every byte width; each value submitted through every "
                       "integer type that can carry it (u8,u16,u32,u64,usize) and embedded as buffer size / package element; "
                       "predicate: bytes = IntEnc(v) (ZeroOp/OneOp/narrowest prefix, little-endian) and IntDec(bytes) = v; "
                       "distinct = distinct values")
