"""C10 - resource descriptors and templates are correctly framed and valued."""
import itertools

import amlgen
import vlib
from props import aml_common as ac

KINDS = ["Memory32Fixed", "IO", "Interrupt", "Register", "AddrSpace"]


def q8(g):
    """a QWord address space descriptor (46 bytes): 1425 of them carry a template's payload past 65535 bytes"""
    d = g.descriptor("AddrSpace")
    while d["w"] != 8:
        d = g.descriptor("AddrSpace")
    return d


def marks(w, marks=(0x79,)):
    """0 and every value with one structural byte (the end-tag 0x79) in one byte position"""
    return [vlib.le(0, w)] + [vlib.le(m << (8 * k), w) for m in marks for k in range(w)]


def mimic_descriptors(g):
    """Descriptors whose field bytes mimic the structure around them (a payload that ends in 79 00 looks like the end
    tag that follows it): every field of every kind over {0, 0x79 in each byte position}, each such descriptor as the
    only, the first and the last child of a template."""
    ds = []
    for rw in (False, True):
        for base in marks(4):
            for ln in marks(4):
                ds.append({"t": "Memory32Fixed", "rw": rw, "base": base, "len": ln})
    for mn, mx, al, ln in itertools.product(marks(2), marks(2), marks(1), marks(1)):
        ds.append({"t": "IO", "min": mn, "max": mx, "align": al, "len": ln})
    for num in marks(4):
        for c, e in itertools.product((False, True), repeat=2):
            ds.append({"t": "Interrupt", "consumer": c, "edge": e, "low": e, "shared": c, "num": num})
    for wd, off, addr in itertools.product(marks(1), marks(1), marks(8)):
        ds.append({"t": "Register", "reg": {"space": "SystemMemory", "width": wd, "offset": off, "access": "ByteAccess", "addr": addr}})
    for w in (2, 4, 8):
        vals = sorted({int.from_bytes(bytes(v), "little") for v in marks(w)} | {0x78 << (8 * k) for k in range(w)})
        for kind in ("memory", "io", "bus"):
            for lo in vals:
                for hi in vals:
                    # range sizes 0x79 << 8k come from (0, 0x79.. - 1): also max one below a marked value
                    for hi2 in (hi, hi - 1):
                        if hi2 < lo or hi2 - lo + 1 > (1 << (8 * w)) - 1:
                            continue
                        d = {"t": "AddrSpace", "w": w, "kind": kind, "min": vlib.le(lo, w), "max": vlib.le(hi2, w)}
                        if kind == "memory":
                            d["cache"], d["rw"] = "Cacheable", True
                        ds.append(d)
                        if kind != "bus" and lo == 0:
                            for tr in marks(w):
                                ds.append(dict(d, trans=tr))
    other = {"t": "IO", "min": [1, 2], "max": [3, 4], "align": [5], "len": [6]}
    progs = []
    for d in ds:
        progs.append(amlgen.prog(g, {"t": "ResourceTemplate", "ch": [d]}))
        progs.append(amlgen.prog(g, {"t": "ResourceTemplate", "ch": [other, d]}))
        progs.append(amlgen.prog(g, {"t": "ResourceTemplate", "ch": [d, other]}))
    return progs


def run(ctx):
    rng = vlib.Rng(ctx.seed)
    th = ctx.thorough()
    progs = []
    g = amlgen.G(rng)
    # every descriptor kind alone, all flag combinations
    for rw in (False, True):
        progs.append(amlgen.prog(g, {"t": "Memory32Fixed", "rw": rw, "base": rng.scalar(4), "len": rng.scalar(4)}))
    for c, e, l, s in itertools.product((False, True), repeat=4):
        progs.append(amlgen.prog(g, {"t": "Interrupt", "consumer": c, "edge": e, "low": l, "shared": s, "num": rng.scalar(4)}))
    for w in (2, 4, 8):
        for kind in ("memory", "io", "bus"):
            for cache in (["NotCacheable", "Cacheable", "WriteCombining", "PreFetchable"] if kind == "memory" else [None]):
                for rw in ((False, True) if kind == "memory" else (None,)):
                    for trans in ((False, True) if kind != "bus" else (False,)):
                        lo, hi = g.minmax(w)
                        d = {"t": "AddrSpace", "w": w, "kind": kind, "min": lo, "max": hi}
                        if cache:
                            d["cache"], d["rw"] = cache, rw
                        if trans:
                            d["trans"] = rng.scalar(w)
                        progs.append(amlgen.prog(g, d))
        full = (1 << (8 * w)) - 1                              # extreme ranges with a representable size
        for lo, hi in ((0, 0), (full, full), (0, full - 1), (1, full), (full - 1, full), (5, 5)):
            progs.append(amlgen.prog(g, {"t": "AddrSpace", "w": w, "kind": "io", "min": vlib.le(lo, w), "max": vlib.le(hi, w)}))
    for _ in range(6000 if th else 700):
        progs.append(amlgen.prog(g, g.descriptor()))
    import schema
    for _ in range(1500 if th else 250):      # coinciding fields: min == max == translation, base == length
        d = schema.equalize(g.descriptor(), rng)
        progs.append(amlgen.prog(g, d))
        progs.append(amlgen.prog(g, {"t": "ResourceTemplate", "ch": [d, schema.equalize(g.descriptor(), rng)]}))
    progs += mimic_descriptors(g)
    # templates of 0..3 descriptors over all kinds and orders
    for n in range(0, 4):
        for combo in itertools.product(KINDS, repeat=n):
            progs.append(amlgen.prog(g, {"t": "ResourceTemplate", "ch": [g.descriptor(k) for k in combo]}))
    # total size across 63/64, 255/256 (buffer-size integer width) and 4095/4096
    for n in list(range(0, 14)) + [20, 40, 80, 150, 255, 256, 257, 300 if th else 260]:
        for _ in range(3):
            progs.append(amlgen.prog(g, g.template(n)))
    for n in (1424, 1425, 1426, 3000 if th else 1600):        # payload across 65535/65536 bytes (buffer-size operand becomes a DWord)
        progs.append(amlgen.prog(g, {"t": "ResourceTemplate", "ch": [q8(g) for _ in range(n)]}, tag="template/%d" % n))
    ctx.samples = [progs[0], progs[30], progs[-1]]
    ctx.distinct = ac.distinct(progs)
    ac.mc_corpus(ctx, progs[::3] if not th else progs, pieces=10)
    ac.judge(ctx, progs, "c10")
    ac.judge(ctx, progs[::2], "c10chk", profile="checked")     # also on the build with integer-overflow checks
    ctx.extra["builds"] = ["release", "checked (overflow checks + debug assertions) for a sample"]
    return vlib.finish(ctx, rule="descriptors: every kind with all flag combinations (cacheability x rw, consumer/edge/polarity/"
                       "shared, translation present/absent), extreme and random ranges with min <= max and representable size; "
                       "templates: all kind sequences of length 0..3 plus random templates to 300 descriptors (total size across "
                       "63/64, 255/256, 4095/4096); predicate per descriptor: tag, length field = bytes that follow, bytes = "
                       "reference encoding (range length = max - min + 1 by byte-wise arithmetic); per template: Buffer size = "
                       "payload, end tag 79 00, walk by own lengths tiles exactly, children in order")
