"""C14 - output is deterministic and independent of the receiving sink."""
import amlgen
import schema
import vlib
from props import aml_common as ac
from props import tables_common as tc


def run(ctx):
    rng = vlib.Rng(ctx.seed)
    th = ctx.thorough()
    vlib.model_check(ctx, "MC_Sink.cfg", "MC_Sink.tla", workers=8)
    inner = []
    # tables: final objects of random builder programs over all kinds, and MC_Tables histories
    inner += tc.random_programs(rng, schema.ALL_KINDS, 2500 if th else 420, [0, 1, 2, 4, 8, 20])
    inner += tc.mc_replays(ctx, schema.ALL_KINDS, 2, workers=8, salts=(1,))
    # AML objects from the C06 generator, incl. bodies across the PkgLength boundaries
    inner += amlgen.all_variants(rng)
    inner += amlgen.all_pairs(rng)[:: (1 if th else 3)]
    for _ in range(6000 if th else 900):
        inner.append(amlgen.random_tree(rng, rng.choice([1, 2, 3, 4, 5])))
    inner += amlgen.boundary_trees(rng, [(60, 66), (4090, 4098)], kinds=["Scope", "Package", "Method", "Device", "BufferData"])
    # every structure that can be added through its raw in-memory form (and the other sub-structures)
    md = schema.option_menu()
    subs = schema.ctor_variants()
    for st in md:
        if "pre" in md[st]:
            continue
        for _ in range(40 if th else 10):
            subs.append(schema.random_sub(rng, md, st, rng.choice([0, 1, 3, 8])))
    for st in ("lapic", "ioapic", "gicd", "gicr", "gicits", "rintc", "imsic", "aplic", "plic", "mpda", "aerdev", "ghes", "chbs", "rdpas",
               "cmo", "vmmioiommu", "vpciiommu"):
        for _ in range(30 if th else 8):
            subs.append({"fam": "sub", "st": st, "a": schema.gen_args(schema.Rand(rng), schema.STRUCTS[st][0]), "calls": []})
    src = schema.Rand(rng)
    for _ in range(60 if th else 20):
        subs.append({"fam": "sub", "st": "gas", "a": schema.gen(src, "gas"), "calls": []})
        subs.append({"fam": "sub", "st": "gas_pci", "calls": [], "a": {"width": src.scalar(1), "access": src.choice(schema.ACCESS[1]),
                     "device": src.scalar(1), "function": src.scalar(1), "register": src.scalar(2)}})
        subs.append({"fam": "sub", "st": "notif", "a": {"type": src.choice(schema.NOTIF[1])}, "calls": schema.gen(src, "notif")["calls"]})
        subs.append({"fam": "sub", "st": "rintcaff", "a": schema.gen_args(src, schema.STRUCTS["rintcaff"][0]),
                     "calls": schema.gen_calls(src, schema.STRUCTS["rintcaff"][1], 3)})
        subs.append({"fam": "sub", "st": "qos", "a": schema.gen_args(src, schema.STRUCTS["qos"][0]),
                     "calls": schema.gen_calls(src, schema.STRUCTS["qos"][1], 3)})
    subs = [s for s in subs if "pre" not in s]
    inner += subs
    progs = [{"fam": "sinks", "inner": p} for p in inner]
    ctx.samples = [progs[0], progs[len(progs) // 2], progs[-1]]
    ctx.distinct = ac.distinct(progs)
    vlib.run_and_judge(ctx, progs, "Trace_Sinks.cfg", "Trace_Sinks.tla", "c14")
    vlib.run_and_judge(ctx, progs[::4], "Trace_Sinks.cfg", "Trace_Sinks.tla", "c14chk", profile="checked")
    return vlib.finish(ctx, rule="objects: final tables of random and TLC-enumerated builder programs over all table kinds, AML trees of "
                       "the C06 generator (all constructors, boundary-sized bodies), stand-alone sub-structures incl. every structure "
                       "with a raw in-memory form; sinks: Vec, byte-only (default methods), override-all recorder, Checksum, Sdt, "
                       "PackageBuilder; predicates: identical streams, well-formed calls, second serialisation equal, checksum sink "
                       "= arithmetic sum = u8sum, raw form = stream")
