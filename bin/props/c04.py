"""C04 - caller values land at their specification offsets (image = reference encoding)."""
import schema
import vlib
from props import tables_common as tc


def run(ctx):
    rng = vlib.Rng(ctx.seed)
    th = ctx.thorough()
    kinds = schema.ALL_KINDS
    progs = tc.mc_replays(ctx, kinds, 3 if th else 2, workers=14, maxref=2)
    # per structure: many argument tuples (boundary values, single-bit patterns, byte fills, random), every enum
    # variant, every optional part present/absent; short programs so that most events are new argument tuples
    rnd = tc.random_programs(rng, kinds, 60000 if th else 6000, [1, 1, 2, 3, 4], maxcalls=10)
    programs = progs + rnd
    ctx.samples = tc.sample(progs, 1) + tc.sample(rnd, 2)
    # stand-alone structures (every sub-structure on its own, GAS, HEST generic error data entry)
    md = schema.option_menu()
    subs = schema.ctor_variants()
    src = schema.Rand(rng)
    for st in md:
        for _ in range(100 if th else 15):
            subs.append(schema.random_sub(rng, md, st, rng.choice([0, 1, 3, 8])))
    for _ in range(300 if th else 40):
        subs.append({"fam": "sub", "st": "gas", "a": schema.gen(src, "gas"), "calls": []})
        subs.append({"fam": "sub", "st": "gedata", "every_prefix": False, "calls": [],
                     "a": {"section_type": src.scalar(2), "severity": src.choice(["Recoverable", "Fatal", "Correctable", "None"]),
                           "revision": src.scalar(2), "validation": src.scalar(1), "flags": src.scalar(1),
                           "error_data_length": src.scalar(4), "fru_id": src.raw(16), "fru_text": src.raw(20),
                           "timestamp": src.raw(8), "data": [65 + src.below(26) for _ in range(src.choice([0, 4, 12]))]}})
    for _ in range(200 if th else 40):
        subs.append({"fam": "sub", "st": "gas_pci", "calls": [], "a": {"width": src.scalar(1), "access": src.choice(schema.ACCESS[1]),
                     "device": src.scalar(1), "function": src.scalar(1), "register": src.scalar(2)}})
    for kind in ("io", "mmio"):
        for size in (1, 2, 4, 8):
            for _ in range(20 if th else 4):
                subs.append({"fam": "sub", "st": "gaddr", "calls": [], "a": {"kind": kind, "size": size, "addr": src.scalar(2 if kind == "io" else 8)}})
    # the generic error status block (counts -> status bits), and the RHCT nodes through their own public constructors
    for cc in ([0, 0, 0, 0], [1, 0, 0, 0], [2, 0, 0, 0], [255, 255, 255, 255], [0, 1, 0, 0], src.scalar(4)):
        for uc in ([0, 0, 0, 0], [1, 0, 0, 0], [2, 0, 0, 0], [255, 255, 255, 255], [0, 0, 0, 128], src.scalar(4)):
            subs.append({"fam": "sub", "st": "gestatus", "calls": [], "a": {"cc": cc, "uc": uc, "severity": src.choice(["Recoverable", "Fatal", "Correctable", "None"])}})
    for sch in ("Sv39", "Sv48", "Sv57"):
        subs.append({"fam": "sub", "st": "mmu", "calls": [], "a": {"scheme": sch}})
    for _ in range(200 if th else 40):
        g = schema.TableGen(src, "RHCT")
        g.add("add_isa_string")
        subs.append({"fam": "sub", "st": "isa", "calls": [], "a": g.ops[-1]["a"]})
    for s in subs:
        s["every_prefix"] = False
    ctx.distinct = tc.distinct(programs + subs)
    programs = programs + tc.far_programs(rng, th)          # full images beyond 64 KiB
    programs = programs + tc.refusal_programs(rng)          # refused operations in the middle of a history
    programs = programs + tc.related_programs(rng, th)      # duplicates, next ids, continuing ranges
    tc.judge(ctx, programs, "c04")
    # the seeded programs again on the build with integer-overflow checks and debug assertions
    vlib.run_and_judge(ctx, rnd[:1500], "Trace_Tables.cfg", "Trace_Tables.tla", "c04chk", profile="checked")
    ctx.extra["builds"] = ["release", "checked (overflow checks + debug assertions) for the seeded programs"]
    vlib.run_and_judge(ctx, subs, "Trace_Sub.cfg", "Trace_Sub.tla", "c04s")
    return vlib.finish(ctx, rule="builder programs over all 21 table kinds and all entry types: MC_Tables histories with "
                       "field-identifying argument patterns + seeded random programs whose scalars are biased to boundaries, "
                       "single-bit and byte-fill patterns; predicate: observed image = TblImage of Layouts/Tables.tla byte for "
                       "byte (table revision, FADT/FACS versions, TCPA spec revision and creator id unconstrained)")
