"""C04 - caller values land at their specification offsets (image = reference encoding)."""
import schema
import vlib
from props import tables_common as tc


def run(ctx):
    rng = vlib.Rng(ctx.seed)
    th = ctx.thorough()
    kinds = schema.ALL_KINDS
    progs = tc.mc_replays(ctx, kinds, 3 if th else 2, workers=14, maxref=2)
    # per structure: many argument tuples (boundary values, single-bit patterns, byte fills, random), every enum
    # variant, every optional part present/absent; short programs so that most events are new argument tuples
    rnd = tc.random_programs(rng, kinds, 60000 if th else 6000, [1, 1, 2, 3, 4], maxcalls=10)
    programs = progs + rnd
    ctx.samples = tc.sample(progs, 1) + tc.sample(rnd, 2)
    ctx.distinct = tc.distinct(programs)
    tc.judge(ctx, programs, "c04")
    return vlib.finish(ctx, rule="builder programs over all 21 table kinds and all entry types: MC_Tables histories with "
                       "field-identifying argument patterns + seeded random programs whose scalars are biased to boundaries, "
                       "single-bit and byte-fill patterns; predicate: observed image = TblImage of Layouts/Tables.tla byte for "
                       "byte (table revision, FADT/FACS versions, TCPA spec revision and creator id unconstrained)")
