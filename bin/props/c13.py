"""C13 - the generic table behaves as a byte vector with self-maintaining header."""
import json
import vlib


def random_history(rng, nops, append_pct):
    n0 = rng.choice([36, 36, 37, 38, 40, 44, 64, 100, 36 + rng.below(300)])
    ops = [{"op": "new", "n": n0, "sig": rng.bytes(4), "rev": rng.below(256), "oem_id": rng.bytes(6),
            "oem_table": rng.bytes(8), "oem_rev": rng.scalar(4)}]
    length = n0
    for _ in range(nops):
        k = rng.below(100)
        if k < append_pct:
            kind = rng.below(4)
            if kind == 0:
                w = rng.choice([1, 2, 4, 8, 1, 2, 4, 8, 3, 5, 6, 12, 16])      # integers and other plain-old-data sizes
                ops.append({"op": "append", "v": rng.scalar(w) if w in (1, 2, 4, 8) else rng.bytes(w)})
                length += w
            elif kind == 1:
                n = rng.choice([0, 0, 1, 2, 3, 5, 16, rng.below(40)])
                ops.append({"op": "append_slice", "v": rng.bytes(n)})
                length += n
            elif kind == 2:
                w = rng.choice([1, 2, 4, 8])
                ops.append({"op": "sink", "v": rng.scalar(w)})
                length += w
            else:
                n = rng.below(12)
                ops.append({"op": "sink_vec", "v": rng.bytes(n)})
                length += n
        elif k < 97:
            typed = rng.chance(2, 3)
            w = rng.choice([1, 2, 4, 8, 1, 2, 4, 8, 3, 5, 6, 12, 16]) if typed else rng.choice([0, 1, 3, 5, 9, 36, rng.below(48)])
            where = rng.below(10)
            if where == 0:
                off = rng.choice([0, 3, 4, 5, 7, 8, 9, 10, 35, 36])       # header, Length field, checksum byte
            elif where == 1:
                off = length - w                                          # last valid position
            elif where == 2:
                off = length - w + 1                                      # first refused position
            elif where == 3:
                off = length + rng.below(5)                               # past the end
            else:
                off = rng.below(length + 1)
            off = max(0, off)
            op = {"op": "write" if typed else "write_bytes", "v": rng.scalar(w) if typed and w in (1, 2, 4, 8) else rng.bytes(w), "off": off}
            if typed and rng.chance(1, 2):
                op["generic"] = True
            if rng.chance(1, 60):
                del op["off"]
                op["off_huge"] = rng.below(9)                             # usize::MAX - k: offset + len overflows
            ops.append(op)
        else:
            ops.append({"op": "update_checksum"})
    return {"fam": "sdt", "ops": ops}


def big_histories(th):
    """tables grown by uniform slices of tens to hundreds of MiB (the checksum is recomputed over the whole table)"""
    progs = []
    for n in ((34000000, 40 << 20, 68000000, 136000000, 272000000) + (((1 << 29) + 5, 1 << 30) if th else ())):
        # (slices only: the sink entry points append byte by byte, each with a full re-sum -- quadratic)
        progs.append({"fam": "sdt", "big": [{"via": "append_slice", "n": n, "b": 255}]})
    # pushes through the sink interface that carry the table's length across 2^16 and 2^24 (several byte carries at once)
    progs.append({"fam": "sdt", "big": [{"via": "append_slice", "n": 65536 - 36 - 100, "b": 3}, {"via": "sink_vec", "n": 300, "b": 200}]})
    progs.append({"fam": "sdt", "big": [{"via": "append_slice", "n": 65536 - 36 - 1, "b": 255}, {"via": "sink_vec", "n": 2, "b": 255}, {"via": "append_slice", "n": 65536, "b": 1}]})
    progs.append({"fam": "sdt", "big": [{"via": "append_slice", "n": (1 << 24) - 36 - 20, "b": 77}, {"via": "sink_vec", "n": 40, "b": 78}]})
    progs.append({"fam": "sdt", "big": [{"via": "append_slice", "n": 20000000, "b": 255}, {"via": "sink_vec", "n": 2000, "b": 254},
                                        {"via": "append_slice", "n": 3, "b": 1}, {"via": "append_slice", "n": 70000000, "b": 128}]})
    return progs


def run(ctx):
    rng = vlib.Rng(ctx.seed)
    th = ctx.thorough()
    # (a)+(b) bounded-exhaustive: TLC checks the refinement on the specification and prints every leaf history
    res = vlib.model_check(ctx, "MC_Sdt_thorough.cfg" if th else "MC_Sdt_quick.cfg", "MC_Sdt.tla", workers=12 if th else 8,
                           timeout=7200, xmx="12g" if th else "6g")
    programs = res.replays
    if th:
        # depth 3 has millions of leaves: replay a seeded tenth of them plus every depth-2 history (quick config)
        programs = [p for i, p in enumerate(programs) if (i + ctx.seed) % 10 == 0]
        res2 = vlib.model_check(ctx, "MC_Sdt_quick.cfg", "MC_Sdt.tla", workers=8)
        programs += res2.replays
    # long behaviours of the specification itself (TLC simulation of MC_Sdt, 41 operations each)
    sims = vlib.simulate(ctx, "MC_Sdt_sim.cfg", "MC_Sdt.tla", num=60 if th else 8, depth=41, seed=ctx.seed)
    programs = programs + sims
    ctx.samples = [programs[0], programs[len(programs) // 2]]
    # (b') seeded long histories: every offset incl. header and checksum byte, refused writes, huge offsets
    for i in range(40 if th else 14):
        programs.append(random_history(rng, 5000 if th else 1000, 4 if th else 10))
    short = [random_history(rng, 1, 50) for _ in range(300)]   # many constructor argument tuples
    short += [{"fam": "sdt", "ops": [{"op": "new", "n": n}]} for n in (0, 1, 35, 36)]
    for n in (255, 256, 4095, 4096, 65535, 65536, 70000):       # declared lengths across the byte boundaries of the Length field
        short.append({"fam": "sdt", "ops": [{"op": "new", "n": n}, {"op": "append", "v": [1, 2]}, {"op": "write", "v": [9], "off": n - 1},
                                             {"op": "write", "v": [9, 9], "off": n + 1}, {"op": "append_slice", "v": [7] * 5}]})
    programs += short
    programs += big_histories(th)
    ctx.samples.append({"fam": "sdt", "ops": programs[-310]["ops"][:5]})
    ctx.distinct = {json.dumps(p, sort_keys=True) for p in programs}
    vlib.run_and_judge(ctx, programs, "Trace_Sdt.cfg", "Trace_Sdt.tla", "c13", timeout=3600)
    vlib.run_and_judge(ctx, programs[-330:], "Trace_Sdt.cfg", "Trace_Sdt.tla", "c13chk", timeout=3600, profile="checked")
    ctx.extra["builds"] = ["release", "checked (overflow checks + debug assertions) for the seeded histories"]
    return vlib.finish(ctx, rule="programs = every leaf history of the bounded model MC_Sdt (all sequences of typed/slice appends, "
                       "typed/slice writes at critical offsets incl. Length field, checksum byte, last valid and first refused "
                       "position, sink pushes) + seeded random long histories + random constructor tuples; distinct = distinct "
                       "programs; every event judged by Trace_Sdt.tla (contents = spec, sum 0, Length after append, refusals)",
                       exhaustive=False)
