"""C07 - PkgLength encodings are correct for every representable length."""
import concurrent.futures as cf

import amlgen
import vlib
from props import aml_common as ac

MAXV = (1 << 28) - 1


def spec_ranges(ctx, ranges):
    """TLC checks the PkgLength theorems of AmlBase on the given ranges (one process per range and form)."""
    def one(job):
        cfg, lo, hi = job
        return vlib.model_check(ctx, cfg, "MC_AmlBase.tla", workers=1, env={"LO": lo, "HI": hi}, timeout=3600)
    jobs = [(c, lo, hi) for (lo, hi) in ranges for c in ("MC_AmlBase_InvPkgIncl.cfg", "MC_AmlBase_InvPkgExcl.cfg")]
    with cf.ThreadPoolExecutor(max_workers=14) as ex:
        list(ex.map(one, jobs))


def batches(ns, incl, size=512):
    return [{"fam": "pkglen", "ns": ns[i:i + size], "incl": incl} for i in range(0, len(ns), size)]


def q8(g):
    """a QWord address space descriptor (46 bytes): 1425 of them carry a template's payload past 65535 bytes"""
    d = g.descriptor("AddrSpace")
    while d["w"] != 8:
        d = g.descriptor("AddrSpace")
    return d


def run(ctx):
    rng = vlib.Rng(ctx.seed)
    th = ctx.thorough()
    # (a) the specification: encoder vs decoder, lead byte format, minimality
    if th:
        step = (1 << 28) // 16
        spec_ranges(ctx, [(i * step, min(MAXV, (i + 1) * step - 1)) for i in range(16)])      # the whole domain
        ctx.extra["spec_domain"] = "all 0 <= n < 2^28, both forms, exhaustively on the specification"
    else:
        spec_ranges(ctx, [(0, 70000), (1048576 - 5000, 1048576 + 5000), (MAXV - 20000, MAXV)])
    # symbolic: Apalache discharges the inclusive-form theorem for ALL n with n + 4 < 2^28 (APA_PkgLen.tla)
    import os, subprocess, time
    t0 = time.time()
    try:
        r = subprocess.run(["apalache-mc", "check", "--length=0", "--inv=Inv", "--init=Init", "--next=Next",
                            "--out-dir=" + ctx.path("apalache"), os.path.join(vlib.SPEC, "APA_PkgLen.tla")],
                           cwd=ctx.dir, stdout=subprocess.PIPE, stderr=subprocess.STDOUT, text=True, timeout=600)
        ok = "EXITCODE: OK" in r.stdout and "NoError" in r.stdout
        if not ok and ("violat" in r.stdout.lower() or "EXITCODE: ERROR (12)" in r.stdout):
            raise vlib.ToolError("Apalache refutes the PkgLength theorem of the specification: " + r.stdout[-800:])
        ctx.extra["apalache"] = {"module": "APA_PkgLen.tla", "result": "NoError" if ok else "not run to completion",
                                 "domain": "all n >= 0 with n + 4 <= 2^28 - 1 (symbolic)", "wall_s": round(time.time() - t0, 1)}
    except (subprocess.TimeoutExpired, FileNotFoundError) as e:
        ctx.extra["apalache"] = {"result": "unavailable: %s" % type(e).__name__}
    # (b) the crate's encoder through the cfg pass-through: boundaries, small values, bit patterns, random
    ns = set(range(0, 70000 if not th else 300000))
    for b in (63, 4095, 1048575, MAXV):
        ns.update(range(max(0, b - 64), min(MAXV, b + 64) + 1))
    for i in range(28):
        ns.add(1 << i)
        for j in range(i):
            ns.add((1 << i) | (1 << j))
    for _ in range(1000000 if th else 100000):
        ns.add(rng.below(MAXV + 1))
    ns = sorted(ns)
    over = [MAXV - 2, MAXV - 1, MAXV, MAXV + 1, MAXV + 2, 1 << 29, 1 << 30, (1 << 31) - 1, (1 << 28) + 12345]          # judged under C18 only
    progs = batches(ns, True) + batches(ns, False) + batches(over, True, 8) + batches(over, False, 8)
    # call sites: every length-prefixed emitter with bodies around every boundary
    sites = amlgen.boundary_trees(rng, [(56, 70), (4084, 4100)], nested=False)
    if th:
        sites += amlgen.boundary_trees(rng, [(1048565, 1048580)], kinds=["Package", "Scope", "Method", "BufferData", "If", "While", "Else", "Device", "PowerResource", "VarPackage", "BufferTerm"], nested=False)
    # size operands change width at 255/256 and 65535/65536 bytes: the enclosing PkgLength must follow
    sites += amlgen.boundary_trees(rng, [(250, 260), (65530, 65541)], kinds=["BufferData", "Package", "Scope"], nested=False)
    for n in (0, 1, 5, 6, 11, 12, 256, 1424, 1425, 1426, 1500):
        g = amlgen.G(rng)
        sites.append(amlgen.prog(g, {"t": "ResourceTemplate", "ch": [q8(g) for _ in range(n)]}, tag="template/%d" % n))
    for _ in range(300 if th else 60):
        sites.append(amlgen.random_tree(rng, 3))
    fields = []
    for _ in range(400 if th else 80):
        g = amlgen.G(rng)
        fields.append(amlgen.prog(g, g.make("Field", g.leaf)))
    # field lists with one entry width at every PkgLength boundary (the exclusive form), bare and inside a container,
    # and every call site again as the child of a container: a length inside another length
    g = amlgen.G(rng)
    for leaf in amlgen.size_leaves(g):
        if leaf["t"] == "Field":
            fields.append(amlgen.prog(g, leaf, tag="Field/width"))
    sites += [amlgen.wrapped(p, i) for i, p in enumerate(sites + fields) if not p.get("summary")]
    progs += sites + fields
    ctx.samples = [{"fam": "pkglen", "ns": ns[60:70], "incl": True}, sites[0], fields[0]]
    ctx.n = 2 * len(ns) + len(sites) + len(fields)
    ctx.distinct = set(ns) | {p.get("tag", "") for p in sites}
    if th:
        # the whole inclusive domain on the crate too: digest tabulation, 4096 chunks of 65536 lengths (Digest.tla)
        top = (1 << 28) - 4                       # largest content size that still fits with its own 4 bytes
        sw = ac.sweep_programs("pkglen_incl", [i * 65536 for i in range(4095)], 65536)
        sw += ac.sweep_programs("pkglen_incl", [4095 * 65536], top - 4095 * 65536)
        before = len(ctx.fails)
        ac.judge(ctx, sw, "c07sweep", timeout=7200)
        ac.refine_sweep_failures(ctx, ctx.fails[before:], "c07sweep")
        ctx.extra["impl_domain"] = "all 0 <= n <= 2^28-5 in the self-inclusive form, exhaustively on the crate (digest tabulation)"
        ctx.n += top
    ac.judge(ctx, progs, "c07")
    ac.judge(ctx, progs[::3], "c07chk", profile="checked")
    return vlib.finish(ctx, rule="lengths: all n < 70 000 (thorough 300 000), +-64 around 63/4095/2^20/2^28, all one- and two-bit "
                       "patterns, seeded random values, both forms, through the cfg pass-through to the crate's private encoder; "
                       "call sites: every length-prefixed emitter with bodies on both sides of each width boundary, field lists with "
                       "widths at the boundaries; predicate per length: decodes to content (+ own size), lead-byte format, shortest "
                       "self-inclusive encoding; distinct = distinct lengths and call-site cases")
