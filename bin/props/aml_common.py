"""Shared plumbing for the AML properties (C06-C10, C15, C16, C18)."""
import json
import os

import vlib


def judge(ctx, programs, name, chunks=None, timeout=3600, profile="release"):
    return vlib.run_and_judge(ctx, programs, "Trace_Aml.cfg", "Trace_Aml.tla", name, chunks=chunks, timeout=timeout, profile=profile)


def mc_corpus(ctx, programs, name="corpus", pieces=8):
    """TLC checks the specification's own encoder against its independent parser on (a slice of) the corpus."""
    import concurrent.futures as cf
    progs = [p for p in programs if p.get("fam") == "aml"]
    progs += [{"tree": p["a"], "b": p["b"], "arities": []} for p in programs if p.get("fam") == "alt" and not p.get("summary")]
    if not progs:
        return
    pieces = max(1, min(pieces, len(progs)))
    parts = [progs[i::pieces] for i in range(pieces)]

    def one(k):
        path = ctx.path(f"{name}.{k}.ndjson")
        vlib.write_ndjson(path, [dict({"tree": p["tree"], "arities": p.get("arities", [])}, **({"b": p["b"]} if "b" in p else {})) for p in parts[k]])
        res = vlib.model_check(ctx, "MC_AmlCorpus.cfg", "MC_AmlCorpus.tla", workers=1, env={"CORPUS": path}, timeout=3600)
        os.remove(path)
        return res

    with cf.ThreadPoolExecutor(max_workers=pieces) as ex:
        list(ex.map(one, range(pieces)))


def distinct(programs):
    return {json.dumps(p, sort_keys=True) for p in programs}
