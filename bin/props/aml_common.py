"""Shared plumbing for the AML properties (C06-C10, C15, C16, C18)."""
import json
import os

import vlib


def judge(ctx, programs, name, chunks=None, timeout=3600, profile="release"):
    # term trees are built twice: with every node the crate's own object (the default) and with every child a
    # user-defined Aml implementor that only serialises itself (so no container can rely on more than to_aml_bytes)
    programs = list(programs) + [dict(p, native=False) for p in programs if p.get("fam") == "aml" and not p.get("summary")]
    # the recursive-descent parser recurses once per term: give the evaluator a deeper stack than the default 16m
    return vlib.run_and_judge(ctx, programs, "Trace_Aml.cfg", "Trace_Aml.tla", name, chunks=chunks, timeout=timeout, profile=profile,
                              env={"TLC_XSS": "256m"})


def mc_corpus(ctx, programs, name="corpus", pieces=8):
    """TLC checks the specification's own encoder against its independent parser on (a slice of) the corpus."""
    import concurrent.futures as cf
    progs = [p for p in programs if p.get("fam") == "aml"]
    progs += [{"tree": p["a"], "b": p["b"], "arities": []} for p in programs if p.get("fam") == "alt" and not p.get("summary")]
    if not progs:
        return
    pieces = max(1, min(pieces, len(progs)))
    parts = [progs[i::pieces] for i in range(pieces)]

    def one(k):
        path = ctx.path(f"{name}.{k}.ndjson")
        vlib.write_ndjson(path, [dict({"tree": p["tree"], "arities": p.get("arities", [])}, **({"b": p["b"]} if "b" in p else {})) for p in parts[k]])
        res = vlib.model_check(ctx, "MC_AmlCorpus.cfg", "MC_AmlCorpus.tla", workers=1, env={"CORPUS": path}, timeout=3600)
        os.remove(path)
        return res

    with cf.ThreadPoolExecutor(max_workers=pieces) as ex:
        list(ex.map(one, range(pieces)))


def distinct(programs):
    return {json.dumps(p, sort_keys=True) for p in programs}


def sweep_programs(what, bases, n, per_prog=8):
    return [{"fam": "sweep", "what": what, "bases": bases[i:i + per_prog], "n": n} for i in range(0, len(bases), per_prog)]


def refine_sweep_failures(ctx, fails, name):
    """A differing chunk digest only names the chunk: re-run that chunk value by value so that the judge names the value."""
    import amlgen
    progs = []
    for f in fails:
        if f.get("what") != "sweep_digest":
            continue
        base, n, kind = f["base"], f["n"], f["kind"]
        if kind == "pkglen_incl":
            ns = list(range(base, base + n))
            progs += [{"fam": "pkglen", "ns": ns[i:i + 512], "incl": True} for i in range(0, n, 512)]
        elif kind == "u32":
            vals = [vlib.le(base * 65536 + k, 8) for k in range(n)]
            progs += [{"fam": "ints", "vals": vals[i:i + 512]} for i in range(0, n, 512)]
        elif kind == "eisa":
            letters = chr(65 + base // 676) + chr(65 + (base // 26) % 26) + chr(65 + base % 26)
            ids = [amlgen.chars(letters + "%04X" % k) for k in range(n)]
            progs += [{"fam": "strs", "what": "eisa", "strs": ids[i:i + 512]} for i in range(0, n, 512)]
    if progs:
        judge(ctx, progs[:4096], name + "-refine")
