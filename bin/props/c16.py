"""C16 - EISA identifiers and UUIDs are encoded per the ACPI compression rules."""
import amlgen
import vlib
from props import aml_common as ac

UP = "ABCDEFGHIJKLMNOPQRSTUVWXYZ"
HEXU = "0123456789ABCDEF"
HEXA = "0123456789abcdefABCDEF"


def run(ctx):
    rng = vlib.Rng(ctx.seed)
    th = ctx.thorough()
    vlib.model_check(ctx, "MC_AmlBase_misc.cfg", "MC_AmlBase.tla", workers=1, env={"LO": 0, "HI": 1})
    ids = set()
    for bg in ("PNP0A08", "ZZZFFFF"):                       # every character position over its full alphabet
        for pos in range(7):
            for ch in (UP if pos < 3 else HEXU):
                ids.add(bg[:pos] + ch + bg[pos + 1:])
    for a in UP:                                             # all letter triples with two digit backgrounds (thorough: all)
        for b in (UP if th else "AMZ"):
            for c in (UP if th else "AQZ"):
                ids.add(a + b + c + "0000")
                ids.add(a + b + c + "9F3C")
    for _ in range(400000 if th else 50000):
        ids.add("".join(rng.choice(UP) for _ in range(3)) + "".join(rng.choice(HEXU) for _ in range(4)))
    for _ in range(2000 if th else 300):        # lower-case hex digits are hexadecimal digits too: same encoding as upper case
        ids.add("".join(rng.choice(UP) for _ in range(3)) + "".join(rng.choice(HEXA) for _ in range(4)))
    for pos in range(3, 7):
        for ch in "abcdef":
            ids.add("PNP0A08"[:pos] + ch + "PNP0A08"[pos + 1:])
    ids = sorted(ids)
    bad_ids = ["", "P", "PNP0A0", "PNP0A080", "PNP0A08 ", "PNP0G08", "PNP0A0Z", "PNPXA08", "PNP-A08", "PNP0A0_"] + ["A" * n for n in range(0, 12) if n != 7]
    nonhex = [chr(c) for c in range(0x20, 0x7f) if chr(c) not in HEXA]
    for pos in range(3, 7):                                  # any non-hex character in a digit position is malformed
        for ch in nonhex:
            bad_ids.append("PNP0A08"[:pos] + ch + "PNP0A08"[pos + 1:])
            bad_ids.append("ACPI000"[:pos] + ch + "ACPI000"[pos + 1:])
    bad_ids += ["P\u00e90501", "\u20ac0501", "\u00e9\u00e9123", "AB\u00e9012", "PN\u00e90A0", "PNP0A0\u00e9", "\u00e9NP0A08", "PNP\u00e9A8", "PNP0A08\u00e9"]    # non-ASCII characters, some with byte length 7
    bad_ids += amlgen.hostile_variants("PNP0A08") + amlgen.hostile_variants("INT0800", positions=range(0, 4)) + amlgen.hostile_variants("FIS5FF0", positions=range(0, 4))
    uu = set()
    base = "aabbccdd-eeff-0123-4567-89abcdef0123"
    for pos in range(36):
        if base[pos] == "-":
            continue
        for ch in HEXA:
            uu.add(base[:pos] + ch + base[pos + 1:])
    for _ in range(100000 if th else 20000):
        h = lambda n: "".join(rng.choice(HEXA) for _ in range(n))
        uu.add("-".join([h(8), h(4), h(4), h(4), h(12)]))
    uu = sorted(uu)
    uu = list(uu)
    bad_uu = [base[:n] for n in range(0, 41) if n != 36] + [base + "0", base + "-"]
    for pos in (8, 13, 18, 23):                              # each hyphen displaced / replaced
        bad_uu.append(base[:pos] + "0" + base[pos + 1:])
        bad_uu.append(base[:pos] + "_" + base[pos + 1:])
        bad_uu.append(base[:pos - 1] + "-" + base[pos - 1] + base[pos + 1:])
    for pos in range(36):                                    # a non-hex character at every position
        if base[pos] != "-":
            for ch in (nonhex if pos in (0, 1, 7, 9, 12, 14, 19, 24, 34, 35) else "g-+ G"):
                bad_uu.append(base[:pos] + ch + base[pos + 1:])
    bad_uu += [base[:5] + "\u00e9" + base[6:], base[:34] + "\u00e9", "\u00e9" + base[2:], base[:8] + "\u00e9" + base[10:]]
    bad_uu += amlgen.hostile_variants(base) + amlgen.hostile_variants("AABBCCDD-EEFF-0123-4567-89ABCDEF0123", positions=(0, 8, 9, 13, 14, 23, 24, 35, 36))
    # the 32 digits cut into five groups of other lengths (a parser that splits at the hyphens and parses each field as a
    # number accepts them when the values happen to fit: digits 0 and 1 make them fit)
    import itertools
    shapes = set()
    for d in itertools.product((-2, -1, 0, 1, 2), repeat=4):
        lens = [8 + d[0], 4 - d[0] + d[1], 4 - d[1] + d[2], 4 - d[2] + d[3], 12 - d[3]]
        if all(x >= 1 for x in lens):
            shapes.add(tuple(lens))
    shapes |= {(32 - 4 * k, k, k, k, k) for k in (1, 2, 3)} | {(1, 1, 1, 1, 28), (16, 4, 4, 4, 4), (4, 4, 4, 4, 16), (12, 4, 4, 4, 8)}
    for lens in sorted(shapes):
        for fill in ("0", "1", "0f", "a0"):
            digits = (fill * 32)[:32]
            parts, k = [], 0
            for n in lens:
                parts.append(digits[k:k + n])
                k += n
            (uu if lens == (8, 4, 4, 4, 12) else bad_uu).append("-".join(parts))
    # the string inside brackets, quotes, a URN / radix prefix, surrounded by blanks (both ends at once)
    for pre, suf in (("{", "}"), ("(", ")"), ("[", "]"), ("<", ">"), ('"', '"'), ("'", "'"), (" ", " "), ("\t", "\n"), ("urn:uuid:", ""),
                     ("0x", ""), ("{", ""), ("", "}"), ("\ufeff", ""), ("", "\0"), ("\0", "\0")):
        bad_uu.append(pre + base + suf)
        bad_ids.append(pre + "PNP0A08" + suf)
        bad_ids.append(pre + "PNP0A0"[:7 - len(pre) - len(suf)] + suf if len(pre) + len(suf) < 7 else pre + suf)
    progs = []
    for what, lst in (("eisa", ids + bad_ids), ("uuid", uu + bad_uu)):
        for i in range(0, len(lst), 512):
            progs.append({"fam": "strs", "what": what, "strs": [amlgen.chars(s) for s in lst[i:i + 512]]})
    if th:
        # a seventh of all letter triples (chosen by the seed) x all 65536 digit quadruples, by digest tabulation
        bases = [b for b in range(17576) if b % 7 == ctx.seed % 7]
        before = len(ctx.fails)
        ac.judge(ctx, ac.sweep_programs("eisa", bases, 65536, 8), "c16sweep", timeout=7200)
        ac.refine_sweep_failures(ctx, ctx.fails[before:], "c16sweep")
        ctx.extra["eisa_sweep"] = "%d letter triples x 65536 digit quadruples by digest tabulation" % len(bases)
    ctx.samples = [ids[100], uu[100], bad_ids[3], bad_uu[5]]
    ctx.n = len(ids) + len(uu) + len(bad_ids) + len(bad_uu)
    ctx.distinct = set(ids) | set(uu) | set(bad_ids) | set(bad_uu)
    ac.judge(ctx, progs, "c16")
    ac.judge(ctx, progs[::3], "c16chk", profile="checked")
    return vlib.finish(ctx, rule="EISA ids: every character position over its full alphabet (two backgrounds), letter triples, seeded "
                       "random ids; UUIDs: every nibble position x 16 digits x both letter cases, seeded random strings; malformed: "
                       "wrong length, displaced/replaced hyphens, a non-hex character at every position; predicate: bytes = integer "
                       "constant of the compressed id and decompressing it returns the id; 16-byte buffer in ToUUID order and back; "
                       "malformed => refused; distinct = distinct strings")
