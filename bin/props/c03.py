"""C03 - table bodies are exactly tiled by self-describing entries; counts agree."""
import schema
import vlib
from props import tables_common as tc


def run(ctx):
    rng = vlib.Rng(ctx.seed)
    th = ctx.thorough()
    kinds = schema.BODY_KINDS + ["SLIT"]
    progs = tc.mc_replays(ctx, kinds, 4 if th else 3, workers=14, maxref=2 if th else 3)
    # random mixtures with many sub-elements and strings of both parities; 300-entry histories
    rnd = tc.random_programs(rng, kinds, 5000 if th else 900, [1, 2, 3, 5, 8, 13, 30], maxcalls=8)
    longs = [tc.long_program(rng, k, 300, 5 if not th else 1) for k in schema.BODY_KINDS]
    fillers = {"VIOT": ("add_virtio_mmio_iommu", 400), "RIMT": ("add_iommu", 400), "HEST": ("add_aer_device", 400),
               "RHCT": ("add_mmu_node", 400), "RQSC": ("add_controller", 400)}
    for k, (f, n) in fillers.items():
        longs.append(tc.long_program(rng, k, n, 1, filler=f, summary=True))        # count fields across 255 -> 256
    programs = progs + rnd + longs
    ctx.samples = tc.sample(progs, 2) + tc.sample(rnd, 1)
    ctx.distinct = tc.distinct(progs + rnd)
    programs = programs + tc.far_programs(rng, th)          # full images beyond 64 KiB
    programs = programs + tc.refusal_programs(rng)          # refused operations in the middle of a history
    programs = programs + tc.related_programs(rng, th, ctx=ctx)   # duplicates, next ids, continuing ranges (seeded and TLC-enumerated)
    tc.judge(ctx, programs, "c03")
    # the seeded programs again on the build with integer-overflow checks and debug assertions
    vlib.run_and_judge(ctx, rnd[:600], "Trace_Tables.cfg", "Trace_Tables.tla", "c03chk", profile="checked")
    ctx.extra["builds"] = ["release", "checked (overflow checks + debug assertions) for the seeded programs"]
    return vlib.finish(ctx, rule="histories over all variable-body tables (MC_Tables to the depth bound, random mixtures with 0..n "
                       "sub-elements and strings of both length parities, 300-entry histories); predicate: the independent "
                       "walker of Walk.tla tiles the observed image exactly, visits the added entries in order with the right type "
                       "codes, lengths and sub-counts, and every count / array-offset / string-length field agrees")
