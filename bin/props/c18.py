"""C18 - counts and sizes too large for their field are refused, never wrapped (release and checked builds)."""
import amlgen
import schema
import vlib
from props import aml_common as ac
from props import tables_common as tc

HDR = {"oem_id": [1, 2, 3, 4, 5, 6], "oem_table_id": [1, 2, 3, 4, 5, 6, 7, 8], "oem_rev": [9, 0, 0, 0]}


FOLLOW = {"PPTT": {"op": "add_cache", "a": {}, "calls": [{"o": "size", "a": {"v": [0, 16, 0, 0]}}]},
          "CEDT": {"op": "add_host_bridge", "a": {"uid": [7, 0, 0, 0], "version": "Cxl2", "base": [0, 0, 0, 128, 0, 0, 0, 0]}, "calls": []},
          "HMAT": {"op": "add_memory_proximity", "a": {"init": [1, 0, 0, 0], "mem": [2, 0, 0, 0]}, "calls": []},
          "RIMT": {"op": "add_iommu", "a": {"id": [9, 0], "base": [0, 16, 0, 0, 0, 0, 0, 0]}, "calls": []},
          "RHCT": {"op": "add_mmu_node", "a": {"scheme": "Sv48"}, "calls": []},
          "SRAT": {"op": "add_rintc_affinity", "a": {"uid": [1, 2, 3, 4], "clock": [5, 0, 0, 0]}, "calls": []},
          "HEST": {"op": "add_aer_device", "a": {"ctor": "global"}, "calls": []},
          "VIOT": {"op": "add_virtio_mmio_iommu", "a": {"base": [0, 0, 0, 64, 0, 0, 0, 0]}, "calls": []},
          "MADT": {"op": "add_gicr", "a": {"base": [0, 0, 8, 0, 0, 0, 0, 0], "length": [0, 0, 2, 0]}, "calls": []}}


def tprog(kind, ops, ctor=None, follow=False, **kw):
    # after a refused operation the table is used further: it must have been left as it was
    if follow and kind in FOLLOW:
        ops = list(ops) + [FOLLOW[kind]]
    p = {"fam": "table", "kind": kind, "ctor": dict(HDR, **(ctor or {})), "ops": ops}
    p.update(kw)
    return p


def aml(tree, **kw):
    p = {"fam": "aml", "tree": tree, "arities": []}
    p.update(kw)
    return p


def aml_sites(rng, th):
    g = amlgen.G(rng)
    progs = []
    zero = {"t": "Zero"}
    for n in [0, 1, 254, 255, 256, 257, 300, 511, 512, 1000]:                    # NumElements is one byte
        progs.append(aml({"t": "Package", "ch": [zero] * n}, tag="package/%d" % n))
        progs.append(aml({"t": "PackageBuilder", "ch": [zero] * n}, tag="package_builder/%d" % n))
    for n in [1, 2, 254, 255, 256, 257, 300, 511, 512, 600]:                     # SegCount is one byte
        s = amlgen.chars(".".join(g.plain_seg() for _ in range(n)))
        progs.append(aml({"t": "Path", "s": s}, tag="path/%d" % n))
        progs.append(aml({"t": "Name", "path": s, "v": zero}, tag="name/%d" % n))
        progs.append(aml({"t": "Device", "path": [92] + s, "ch": []}, tag="device/%d" % n))
        progs.append({"fam": "strs", "what": "path", "strs": [s, [92] + s]})
    for n in [0, 6, 7, 8, 9, 15, 16, 17, 64, 128, 255]:                          # ArgCount is three bits
        progs.append(aml({"t": "Method", "path": amlgen.chars("MTHD"), "args": n, "ser": n % 2 == 0, "ch": [zero]}, tag="method/%d" % n))
    top = (1 << 28) - 1
    for bits in [top - 1, top, top + 1, top + 2, 1 << 29, (1 << 30) + 5, (1 << 31) - 1]:   # field widths are PkgLengths
        progs.append(aml({"t": "Field", "path": amlgen.chars("FLD0"), "access": "Any", "lock": "NoLock", "update": "Preserve",
                          "fields": [{"k": "named", "name": amlgen.chars("F001"), "bits": bits}]}, tag="field_named/%d" % bits))
        progs.append(aml({"t": "Field", "path": amlgen.chars("FLD0"), "access": "Any", "lock": "NoLock", "update": "Preserve",
                          "fields": [{"k": "reserved", "bits": 8}, {"k": "reserved", "bits": bits}]}, tag="field_reserved/%d" % bits))
    for w in (2, 4, 8):                                                          # range size within its width
        full = (1 << (8 * w)) - 1
        half = 1 << (8 * w - 1)
        # (minimum <= maximum throughout: what a reversed range means is outside every property's quantifier)
        for lo, hi in ((0, full), (0, full - 1), (1, full), (full, full), (0, 0), (half - 1, half), (0, half), (half, full)):
            for kind in ("memory", "io", "bus"):
                d = {"t": "AddrSpace", "w": w, "kind": kind, "min": vlib.le(lo, w), "max": vlib.le(hi, w)}
                if kind == "memory":
                    d["cache"], d["rw"] = "Cacheable", True
                progs.append(aml(d, tag="addrspace/%d/%d-%d" % (w, lo, hi)))
                progs.append(aml({"t": "ResourceTemplate", "ch": [d]}, tag="template_addrspace/%d" % w))
    for n in (7, 8, 9, 255):
        progs.append(aml({"t": "Arg", "n": n}))
        progs.append(aml({"t": "Local", "n": n}))
    maxv = (1 << 28) - 1
    over = [maxv - 5, maxv - 4, maxv - 3, maxv, maxv + 1, maxv + 2, 1 << 29, 1 << 30, (1 << 31) - 1]
    # lengths whose low 32 (or 28) bits look harmless: 2^32, 2^32 + small, k * 2^32, 2^40 + 4096, 2^63, 2^64 - 1 ...
    wide = [1 << 31, (1 << 31) + 1, (1 << 32) - 1, 1 << 32, (1 << 32) + 1, (1 << 32) + 63, (1 << 32) + 4096, (1 << 32) + (1 << 27), 3 << 32,
            (1 << 40) + 4096, (1 << 48) + 5, 1 << 63, (1 << 64) - 1, (1 << 64) - (1 << 28), (7 << 32) + maxv - 3, (1 << 36) + 64]
    # (the self-inclusive form measures a body that exists in memory: below 2^63, where adding its own size cannot wrap)
    progs.append({"fam": "pkglen", "ns": over, "incl": True, "wide": [vlib.le(v, 8) for v in wide if v < (1 << 63)]})
    progs.append({"fam": "pkglen", "ns": over, "incl": False, "wide": [vlib.le(v, 8) for v in wide]})
    for v in wide:
        progs.append(aml({"t": "Field", "path": amlgen.chars("FLD0"), "access": "Any", "lock": "NoLock", "update": "Preserve",
                          "fields": [{"k": "named", "name": amlgen.chars("F001"), "bits": 0, "bitsw": vlib.le(v, 8)}]}, tag="field_named_wide/%d" % v))
        progs.append(aml({"t": "Field", "path": amlgen.chars("FLD0"), "access": "Any", "lock": "NoLock", "update": "Preserve",
                          "fields": [{"k": "reserved", "bits": 8}, {"k": "reserved", "bits": 0, "bitsw": vlib.le(v, 8)}]}, tag="field_reserved_wide/%d" % v))
    # bodies of 2^28 bytes built for real (about 1 GiB peak each), through every length-prefixed emitter: well below the
    # limit, where only the outer object exceeds it, and where the inner buffer already does
    kinds = ["BufferData", "Package", "PackageBuilder", "VarPackage", "BufferTerm", "Device", "Scope", "ScopeRaw", "Method", "PowerResource", "If", "Else", "While"]
    for kind in (kinds if th else ["BufferData", "Package", "PackageBuilder", "Scope", "ScopeRaw", "Method", "Device", "If"]):
        for n in ((maxv - 60, maxv - 12, maxv - 9, maxv - 2, maxv + 1) if th else (maxv - 60, maxv - 9, maxv + 1)):
            g, t = amlgen.sized(rng, kind, n)
            progs.append(aml(t, summary=True, tag="%s_body/%d" % (kind, n)))
    return progs


def table_sites(rng, th):
    src = schema.Rand(rng)
    progs = []
    cache = {"op": "add_cache", "a": {}, "calls": []}
    for k in [0, 1, 57, 58, 59, 60, 64, 100, 122, 300]:                          # PPTT node length is one byte
        progs.append(tprog("PPTT", [cache, {"op": "add_processor", "a": {"parent": 0, "id": [1, 0, 0, 0]},
                                            "calls": [{"o": "add_cache", "a": {"ref": 1}}] * k}], follow=k > 58))
    for n in ([0, 254, 255, 256, 257, 300, 512, 8190, 8191, 8192] if th else [0, 255, 256, 257, 300]):                # CXIMS bitmap count is one byte
        progs.append(tprog("CEDT", [{"op": "add_xor_interleave_math", "a": {"gran": "Granularity4kb"},
                                     "calls": [{"o": "add_xormap", "a": {"v": src.scalar(8)}} for _ in range(n)]}], follow=n > 255))
    msci = {"pxm": [1, 0, 0, 0], "size": [0] * 8, "total": "Two", "this": "One", "assoc": "Complex", "policy": "Writeback", "line": [64, 0]}
    for n in ([65534, 65535, 65536, 65537, 70000, 131072] if th else [65535, 65536, 65537]):                        # SMBIOS handle count is two bytes
        progs.append(tprog("HMAT", [{"op": "add_memory_side_cache", "a": msci,
                                     "calls": [{"o": "add_smbios_handle", "a": {"v": [i % 256, (i // 256) % 256]}} for i in range(n)]}], full_limit=1 << 22, follow=n > 65535))
    wire = {"num": [1, 0, 0, 0], "level": True, "high": False, "aplic": [2, 0]}
    for n in ([8186, 8187, 8188, 8189, 9000, 16384] if th else [8187, 8188, 8200]):                              # RIMT device length is two bytes
        progs.append(tprog("RIMT", [{"op": "add_iommu", "a": {"id": [1, 0], "wires": [wire] * n}, "calls": []}], full_limit=1 << 22, follow=n > 8187))
    io = {"op": "add_iommu", "a": {"id": [1, 0]}, "calls": []}
    mp = {"src": [1, 0, 0, 0], "dst": [2, 0, 0, 0], "n": [3, 0, 0, 0], "iommu": 1, "ats": True, "pri": False, "rciep": False}
    for n in ([3274, 3275, 3276, 3277, 4000, 6554] if th else [3275, 3276, 3300]):
        progs.append(tprog("RIMT", [io, {"op": "add_pcie_root_complex", "a": {"id": [2, 0], "seg": [0, 0], "ats": False, "pri": False, "maps": [mp] * n}, "calls": []}], full_limit=1 << 22, follow=n > 3275))
        progs.append(tprog("RIMT", [io, {"op": "add_platform", "a": {"id": [2, 0], "name": [65] * 22, "maps": [mp] * n}, "calls": []}], full_limit=1 << 22, follow=n > 3274))
    for n in ([65500, 65522, 65523, 65524, 65535, 70000] if th else [65522, 65523, 65600]):                         # platform name
        progs.append(tprog("RIMT", [{"op": "add_platform", "a": {"id": [2, 0], "name": [65] * n}, "calls": []}], full_limit=1 << 22, follow=n > 65522))
    reg = {"space": "SystemMemory", "width": [64], "offset": [0], "access": "QwordAccess", "addr": [0] * 8}
    res = {"rtype": "Cache", "flags": [0, 0], "id": {"t": "cache", "cache_id": [1, 0, 0, 0]}}
    for n in ([3274, 3275, 3276, 3277, 3300, 6600] if th else [3275, 3276, 3300]):                               # RQSC controller length is two bytes
        progs.append(tprog("RQSC", [{"op": "add_controller", "a": {"type": "Capacity", "reg": reg, "rcid": [1, 0, 0, 0], "mcid": [1, 0, 0, 0], "flags": [0, 0]},
                                     "calls": [{"o": "add_resource", "a": {"v": res}}] * n}], full_limit=1 << 22))
    for n in ([65000, 65526, 65527, 65528, 65529, 70000] if th else [65527, 65528, 65600]):                         # vendor resource length is two bytes
        vres = {"rtype": "Memory", "flags": [0, 0], "id": {"t": "vendor", "idtype": [200], "data": [7] * n}}
        progs.append(tprog("RQSC", [{"op": "add_controller", "a": {"type": "Bandwidth", "reg": reg, "rcid": [1, 0, 0, 0], "mcid": [1, 0, 0, 0], "flags": [0, 0]},
                                     "calls": [{"o": "add_resource", "a": {"v": vres}}]}], ctor={"timebase": [0] * 8}, full_limit=1 << 22))
    for n in ([65523, 65524, 65525, 65526, 65527, 65535, 65536, 70000] if th else [65524, 65525, 65526, 65527, 65600]):           # RHCT node length is two bytes
        progs.append(tprog("RHCT", [{"op": "add_isa_string", "a": {"str": [97] * n}, "calls": []}], ctor={"timebase": [0] * 8}, full_limit=1 << 22, follow=n > 65525))
    isa = {"op": "add_isa_string", "a": {"str": [114, 118]}, "calls": []}
    cmo = {"op": "add_cmo", "a": {"cbom": [6], "cbop": [6], "cboz": [6]}, "calls": []}
    for n in ([16378, 16379, 16380, 16381, 20000] if th else [16379, 16380, 16400]):
        progs.append(tprog("RHCT", [isa, cmo, {"op": "add_hart_info", "a": {"uid": [1, 0, 0, 0], "isa": 1}, "calls": [{"o": "with_cmo", "a": {"ref": 2}}] * n}],
                           ctor={"timebase": [0] * 8}, full_limit=1 << 22, follow=n > 16379))
    # VIOT: 16-bit node offsets: the node that would start at 65536 must be refused
    g = schema.TableGen(schema.Rand(rng), "VIOT")
    for i in range(4100):
        g.add("add_virtio_mmio_iommu")
    p = g.program()
    p["observe_every"] = 1
    p["summary"] = True          # judged through generic observations (length before/after, byte sum, header bytes)
    progs.append(p)
    g = schema.TableGen(schema.Rand(rng), "VIOT")
    g.add("add_virtio_pci_iommu")
    for i in range(2800):
        g.add(rng.choice(["add_mmio_endpoint", "add_pci_range"]))
    p = g.program()
    p["observe_every"] = 1
    p["summary"] = True
    progs.append(p)
    # SLIT: localities^2 must be representable
    for n in [0, 1, 255, 256, 65536, 131072]:
        progs.append(tprog("SLIT", [], ctor={"n": n}, full_limit=1 << 22))
    # PCI device / function numbers (5 and 3 bits)
    for dev, fn in [(31, 7), (32, 0), (0, 8), (255, 255), (33, 9)]:
        pci = {"seg": [1, 0], "bus": [2], "dev": [dev], "fn": [fn]}
        progs.append(tprog("SRAT", [{"op": "add_generic_initiator", "a": {"pxm": [1, 0, 0, 0], "handle": dict(pci, t="pci")}, "calls": []}], follow=True))
        progs.append(tprog("RIMT", [{"op": "add_iommu", "a": {"id": [1, 0], "pci": pci}, "calls": []}], follow=True))
        progs.append(tprog("VIOT", [{"op": "add_virtio_pci_iommu", "a": {"pci": pci}, "calls": []}], follow=True))
        progs.append(tprog("CEDT", [{"op": "add_port_association", "a": {"seg": [1, 0], "bus": [2], "dev": [dev], "fn": [fn], "proto": "CxlMem", "base": [0] * 8}, "calls": []}], follow=True))
        progs.append(tprog("HEST", [{"op": "add_aer_device", "a": {"ctor": "port", "ff": "Enabled", "pci": {"bus": [2], "dev": [dev], "fn": [fn]}}, "calls": []}], follow=True))
        progs.append(tprog("TCPA_SERVER", [{"op": "pci_sbdf", "a": {"seg": [1], "bus": [2], "dev": [dev], "fn": [fn]}}]))
    tp = {"class": "Client", "base": [0] * 8, "start": "Crb"}
    progs.append(tprog("TPM2", [{"op": "set_log_area", "a": {"min_len": [1, 0, 0, 0], "base": [2] * 8}}, {"op": "set_log_area", "a": {"min_len": [1, 0, 0, 0], "base": [2] * 8}}], ctor=tp))
    im = {"op": "add_imsic", "a": {"s_ids": [1, 0], "g_ids": [1, 0], "guest_bits": [1], "hart_bits": [1], "group_bits": [1], "group_shift": [1]}, "calls": []}
    progs.append(tprog("MADT", [im, im], ctor={"lic": "Riscv"}, follow=True))
    return progs


def sub_sites(rng, th):
    """the same limits when the structure is serialised on its own (not through a table's add operation)"""
    subs = []
    pre_pptt = [{"op": "add_cache", "a": {}, "calls": []}]
    for k in [58, 59, 60, 100]:
        subs.append({"fam": "sub", "st": "proc", "a": {"parent": 0, "id": [1, 0, 0, 0]}, "calls": [{"o": "add_cache", "a": {"ref": 1}}] * k,
                     "kind": "PPTT", "pre": pre_pptt, "every_prefix": False})
    for n in [255, 256, 300]:
        subs.append({"fam": "sub", "st": "cxims", "a": {"gran": "Granularity4kb"}, "calls": [{"o": "add_xormap", "a": {"v": [1] * 8}}] * n, "every_prefix": False})
    wire = {"num": [1, 0, 0, 0], "level": True, "high": False, "aplic": [2, 0]}
    for n in [8187, 8188, 8300]:
        subs.append({"fam": "sub", "st": "iommu", "a": {"id": [1, 0], "wires": [wire] * n}, "calls": [], "every_prefix": False})
    pre_rimt = [{"op": "add_iommu", "a": {"id": [1, 0]}, "calls": []}]
    mp = {"src": [1, 0, 0, 0], "dst": [2, 0, 0, 0], "n": [3, 0, 0, 0], "iommu": 1, "ats": True, "pri": False, "rciep": False}
    for n in [3275, 3276, 3400]:
        subs.append({"fam": "sub", "st": "rc", "a": {"id": [2, 0], "seg": [0, 0], "ats": False, "pri": False, "maps": [mp] * n}, "calls": [],
                     "kind": "RIMT", "pre": pre_rimt, "every_prefix": False})
    for n in [65522, 65523, 65600]:
        subs.append({"fam": "sub", "st": "plat", "a": {"id": [2, 0], "name": [65] * n}, "calls": [], "every_prefix": False})
    msci = {"pxm": [1, 0, 0, 0], "size": [0] * 8, "total": "Two", "this": "One", "assoc": "Complex", "policy": "Writeback", "line": [64, 0]}
    for n in [65535, 65536]:
        subs.append({"fam": "sub", "st": "msci", "a": msci, "calls": [{"o": "add_smbios_handle", "a": {"v": [1, 0]}}] * n, "every_prefix": False})
    return subs


def run(ctx):
    rng = vlib.Rng(ctx.seed)
    th = ctx.thorough()
    vlib.model_check(ctx, "MC_AmlBase_InvPkgIncl.cfg", "MC_AmlBase.tla", workers=1, env={"LO": (1 << 28) - 5000, "HI": (1 << 28) - 1})
    a = aml_sites(rng, th)
    t = table_sites(rng, th)
    ctx.samples = [a[5].get("tag", ""), a[40].get("tag", ""), {"kind": t[3]["kind"], "op": t[3]["ops"][-1]["op"], "calls": len(t[3]["ops"][-1].get("calls", []))}]
    ctx.distinct = {p.get("tag", "") for p in a} | {str(i) for i in range(len(t))}
    import concurrent.futures as cf
    for profile in ("release", "checked"):
        vlib.build_harness(profile)
    with cf.ThreadPoolExecutor(max_workers=4) as ex:
        futs = []
        for profile in ("release", "checked"):
            futs.append(ex.submit(ac.judge, ctx, a, "c18a-" + profile, 2, 3600, profile))
            futs.append(ex.submit(vlib.run_and_judge, ctx, t, "Trace_Tables.cfg", "Trace_Tables.tla", "c18t-" + profile, 6, profile, 3600))
        subs = sub_sites(rng, th)
        for profile in ("release", "checked"):
            futs.append(ex.submit(vlib.run_and_judge, ctx, subs, "Trace_Sub.cfg", "Trace_Sub.tla", "c18s-" + profile, 4, profile, 3600))
        for f in futs:
            f.result()
    # the package builder after a refused element (caught by the caller): count and payload as before
    zero = {"t": "Zero"}
    bad = [{"t": "Method", "path": amlgen.chars("MTHD"), "args": 8, "ser": False, "ch": [zero]}, {"t": "Package", "ch": [zero] * 256},
           {"t": "Path", "s": amlgen.chars(".".join(["ABCD"] * 256))}, {"t": "Arg", "n": 7}]
    pbs = []
    for b in bad:
        pbs.append({"fam": "pb", "ops": [{"op": "add", "tree": zero}, {"op": "add", "tree": b}, {"op": "add", "tree": {"t": "One"}},
                                         {"op": "add", "tree": b}, {"op": "push", "d": [7], "via": "byte"}, {"op": "add", "tree": zero}]})
    pbs.append({"fam": "pb", "ops": [{"op": "add", "tree": zero}] * 258 + [{"op": "push", "d": [1], "via": "byte"}, {"op": "add", "tree": zero}]})
    pbs.append({"fam": "pb", "ops": [{"op": "add", "tree": {"t": "Int", "ty": "u16", "v": [1, 2]}}] * 255 + [{"op": "add", "tree": {"t": "Str", "s": [65], "owned": True}}] * 3})
    for profile in ("release", "checked"):
        vlib.run_and_judge(ctx, pbs, "Trace_Pb.cfg", "Trace_Pb.tla", "c18pb-" + profile, profile=profile, chunks=2)
    ctx.extra["builds"] = ["release (no overflow checks)", "checked (debug-assertions + overflow-checks)"]
    return vlib.finish(ctx, rule="every encoded count/length field with a caller-controlled source at field-maximum (accepted), "
                       "maximum+1 and far beyond: package elements, name segments, method arguments, PkgLength (pass-through; "
                       "thorough: real 2^28-byte bodies), field widths, address-range sizes, PPTT node length, CXIMS bitmaps, HMAT "
                       "SMBIOS handles, RIMT/RQSC/RHCT 16-bit lengths, VIOT 16-bit offsets/counts, SLIT localities^2, PCI "
                       "device/function numbers; each in a release build and in a build with overflow checks; predicate: not Fits => "
                       "refused (panic); Fits => accepted and count/length fields agree with the content (walker / parser)")
