#!/bin/bash
# Detection matrix: run the related checks against every seeded change, on a private copy of the repository
# (meant for `vp run --with-repo -- bin/matrix.sh`; never touches /repo).  Output: one line per (change, check).
export VERIF_EVIDENCE_DIR=${VERIF_EVIDENCE_DIR:-/verif/.work/evidence-scratch}   # never overwrite the committed evidence
REPO=${VP_RUN_REPO:-}
[ -n "$REPO" ] && [ "$REPO" != "/repo" ] || { echo "needs VP_RUN_REPO (vp run --with-repo)"; exit 2; }
export VERIF_REPO=$REPO
cd "$(dirname "$0")/.."
for d in seeded/*/; do
  name=$(basename $d)
  files=$(grep '^+++ b/' $d/patch.diff | sed 's#+++ b/##' | tr '\n' ' ')
  case "$files" in
    *aml.rs*) checks="C06 C07 C08 C09 C10 C14 C15 C16 C18" ;;
    *sdt.rs*|*lib.rs*) checks="C01 C02 C04 C13 C14 C17" ;;
    *) checks="C01 C02 C03 C04 C05 C11 C12 C14 C18" ;;
  esac
  (cd $REPO && git apply --unsafe-paths $OLDPWD/$d/patch.diff 2>/dev/null || patch -p1 -s < $OLDPWD/$d/patch.diff) || { echo "$name APPLY-FAILED"; continue; }
  for c in $checks; do
    out=$(timeout 2400 bin/check $c 2>&1); rc=$?
    n=$(echo "$out" | grep -c '^VIOLATION')
    echo "MATRIX $name $c rc=$rc violations=$n"
  done
  (cd $REPO && git checkout -- . 2>/dev/null || patch -p1 -R -s < $OLDPWD/$d/patch.diff)
done
echo MATRIX-DONE
