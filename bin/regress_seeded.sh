#!/bin/bash
# Regression of detection: every seeded change against its target property's quick check, on a private repository copy
# (meant for `vp run --with-repo -- bin/regress_seeded.sh`).  One line per change.
export VERIF_EVIDENCE_DIR=${VERIF_EVIDENCE_DIR:-/verif/.work/evidence-scratch}   # never overwrite the committed evidence
REPO=${VP_RUN_REPO:-}
[ -n "$REPO" ] && [ "$REPO" != "/repo" ] || { echo "needs VP_RUN_REPO (vp run --with-repo)"; exit 2; }
export VERIF_REPO=$REPO
cd "$(dirname "$0")/.."
# REGRESS_LIST: directories to run, in order (default: all)
for d in ${REGRESS_LIST:-seeded/C*/}; do
  name=$(basename $d); c=${name%%-*}
  (cd $REPO && git apply --unsafe-paths $OLDPWD/$d/patch.diff 2>/dev/null) || { echo "REGRESS $name APPLY-FAILED"; continue; }
  out=$(timeout 2400 bin/check $c 2>&1); rc=$?
  echo "REGRESS $name $c rc=$rc violations=$(echo "$out" | grep -c '^VIOLATION') $(echo "$out" | grep '^\[violation\]' | sed -E 's/^\[violation\] ([^:]*):.*/\1/' | head -2 | tr '\n' ' ')"
  (cd $REPO && git checkout -- . 2>/dev/null)
done
[ -n "${REGRESS_LIST:-}" ] && { echo REGRESS-DONE; exit 0; }
out=$(cd $REPO && git apply --unsafe-paths $OLDPWD/seeded/REFACTOR-1/patch.diff && cd - >/dev/null && for c in C01 C02 C03 C04 C06 C07 C14; do timeout 2400 bin/check $c >/dev/null 2>&1; echo -n "$c=$? "; done; cd $REPO && git checkout -- .)
echo "REGRESS REFACTOR-1 $out"
out=$(cd $REPO && git apply --unsafe-paths $OLDPWD/seeded/REFACTOR-2/patch.diff && cd - >/dev/null && for c in C01 C02 C03 C04 C05 C06 C07 C08 C09 C10 C12 C13 C14 C15 C17 C18; do timeout 2400 bin/check $c >/dev/null 2>&1; echo -n "$c=$? "; done; cd $REPO && git checkout -- .)
echo "REGRESS REFACTOR-2 $out"
echo REGRESS-DONE
