#!/bin/bash
# run every thorough check once (for timing / smoke), on a private repository copy when started by `vp run --with-repo`
export VERIF_EVIDENCE_DIR=${VERIF_EVIDENCE_DIR:-/verif/.work/evidence-scratch}   # never overwrite the committed evidence
[ -n "${VP_RUN_REPO:-}" ] && export VERIF_REPO=$VP_RUN_REPO
cd "$(dirname "$0")/.."
for c in ${@:-C17 C15 C09 C16 C10 C14 C12 C11 C05 C13 C06 C08 C07 C03 C02 C01 C04 C18}; do
  s=$(date +%s); out=$(timeout 7200 bin/check $c --tier thorough 2>&1); rc=$?; e=$(date +%s)
  echo "THOROUGH $c rc=$rc $((e-s))s $(echo "$out" | grep -E '^\[viol|TOOL-ERROR' | head -3 | cut -c1-300)"
done
echo THOROUGH-DONE
