"""Shared driver plumbing for /verif/bin/check.

Roles (DESIGN.md section 2): the TLA+ specification in /verif/spec is the only oracle; TLC model
checks it (MC_*), generates behaviours of it (REPLAY lines) and judges recorded executions of the
real crate against it (Trace_*).  This module only orchestrates: build the Rust harness from
/repo's working tree, run TLC, run the harness, collect FAIL records, classify them against
/verif/known_findings.json, write evidence.  It never decides a property itself.
"""
import concurrent.futures as cf
import json
import os
import re
import shutil
import subprocess
import sys
import time

VERIF = os.path.dirname(os.path.dirname(os.path.abspath(__file__)))
SPEC = os.path.join(VERIF, "spec")
HARNESS = os.path.join(VERIF, "harness")
WORK = os.path.join(VERIF, ".work")
TLC_SH = os.path.join(VERIF, "bin", "tlc.sh")
NCPU = os.cpu_count() or 4


class ToolError(Exception):
    pass


def log(*a):
    print(*a, file=sys.stderr, flush=True)


# ----------------------------------------------------------------------------------------------
# context

class Ctx:
    def __init__(self, prop, tier, seed):
        self.prop = prop
        self.tier = tier
        self.seed = seed
        self.t0 = time.time()
        self.dir = os.path.join(WORK, f"{prop}-{tier}-{os.getpid()}")
        shutil.rmtree(self.dir, ignore_errors=True)
        os.makedirs(self.dir)
        self.mc_states = 0
        self.mc_transitions = 0
        self.mc_runs = []
        self.programs = 0
        self.events = 0
        self.traces = 0
        self.fails = []           # FAIL records (dicts) from the judge
        self.samples = []
        self.extra = {}
        self.assumptions = []
        self.distinct = set()
        self.n = 0

    def path(self, name):
        return os.path.join(self.dir, name)

    def thorough(self):
        return self.tier == "thorough"

    def cleanup(self):
        shutil.rmtree(self.dir, ignore_errors=True)


# ----------------------------------------------------------------------------------------------
# harness build (always from /repo's current working tree; cargo's fingerprinting makes it a no-op
# when nothing changed)

_built = {}


def build_harness(profile="release"):
    if profile in _built:
        return _built[profile]
    env = dict(os.environ)
    env["CARGO_NET_OFFLINE"] = "true"
    # VERIF_REPO: build against another copy of the repository (used only by bin/matrix.sh in a vp-run snapshot;
    # the registered checks always use /repo)
    alt = os.environ.get("VERIF_REPO")
    if alt and alt != "/repo":
        ct = os.path.join(HARNESS, "Cargo.toml")
        txt = open(ct).read()
        new = re.sub(r'acpi_tables = \{ path = "[^"]*" \}', 'acpi_tables = { path = "%s" }' % alt, txt)
        if new != txt:
            open(ct, "w").write(new)
    cmd = ["cargo", "build", "--offline", "--quiet"]
    cmd += ["--release"] if profile == "release" else ["--profile", profile]
    t = time.time()
    r = subprocess.run(cmd, cwd=HARNESS, env=env, stdout=subprocess.PIPE, stderr=subprocess.STDOUT, text=True)
    if r.returncode != 0:
        sys.stderr.write(r.stdout[-4000:])
        raise ToolError(f"harness build failed ({profile})")
    p = os.path.join(HARNESS, "target", profile, "verif_harness")
    if not os.path.exists(p):
        raise ToolError("harness binary missing: " + p)
    log(f"[build] harness {profile} {time.time() - t:.1f}s")
    _built[profile] = p
    return p


# ----------------------------------------------------------------------------------------------
# TLC

class TlcResult:
    def __init__(self):
        self.lines = []
        self.replays = []
        self.fails = []
        self.done = None
        self.stuck = None
        self.generated = 0
        self.distinct = 0
        self.ok = False
        self.error = None
        self.coverage = {}
        self.prints = []
        self.wall = 0.0


_stat_re = re.compile(r"^(\d+) states generated, (\d+) distinct states found")
_sim_re = re.compile(r"^The number of states generated: (\d+)")
_cov_re = re.compile(r"^<(\w+) line (\d+), col \d+ to line \d+, col \d+ of module (\w+)(?: \([\d ]+\))?>: (\d+):(\d+)")


def _unq(line):
    """PrintT of a string prints it as a TLA+ string literal: unescape."""
    try:
        return json.loads(line)
    except Exception:
        return line.strip('"').replace('\\"', '"').replace("\\\\", "\\")


def run_tlc(cfg, tla, workers=1, env=None, extra=(), timeout=1800, metadir=None, xmx="4g", allow_violation=False):
    md = metadir or os.path.join(WORK, f"md-{os.getpid()}-{time.time_ns()}")
    e = dict(os.environ)
    e["TLC_XMX"] = xmx
    if env:
        e.update({k: str(v) for k, v in env.items()})
    cmd = [TLC_SH, str(workers), md, cfg, tla] + list(extra)
    tmp = md + ".tmp"                      # TLC / SANY scratch (java.io.tmpdir), private to this run and removed with it
    os.makedirs(tmp, exist_ok=True)
    e["TLC_TMP"] = tmp
    t = time.time()
    try:
        r = subprocess.run(cmd, cwd=SPEC, env=e, stdout=subprocess.PIPE, stderr=subprocess.STDOUT, text=True,
                           timeout=timeout)
    except subprocess.TimeoutExpired:
        shutil.rmtree(md, ignore_errors=True)
        shutil.rmtree(tmp, ignore_errors=True)
        raise ToolError(f"TLC timeout after {timeout}s: {cfg}")
    shutil.rmtree(md, ignore_errors=True)
    shutil.rmtree(tmp, ignore_errors=True)
    res = TlcResult()
    res.wall = time.time() - t
    res.lines = r.stdout.splitlines()
    for line in res.lines:
        if line.startswith('"REPLAY '):
            res.replays.append(json.loads(_unq(line)[7:]))
        elif line.startswith('"FAIL '):
            res.fails.append(json.loads(_unq(line)[5:]))
        elif line.startswith('"DONE '):
            res.done = int(_unq(line)[5:])
        elif line.startswith('"STUCK '):
            res.stuck = int(_unq(line)[6:])
        elif line.startswith('"INFO '):
            res.prints.append(json.loads(_unq(line)[5:]))
        else:
            m = _stat_re.match(line)
            if m:
                res.generated, res.distinct = int(m.group(1)), int(m.group(2))
                continue
            m = _sim_re.match(line)
            if m:
                res.generated = res.distinct = int(m.group(1))
                continue
            m = _cov_re.match(line)
            if m:
                key = f"{m.group(3)}.{m.group(1)}@{m.group(2)}"
                res.coverage[key] = res.coverage.get(key, 0) + int(m.group(5))
    out = r.stdout
    res.ok = ("Model checking completed. No error has been found." in out) or ("Finished in" in out and "Error:" not in out and "is violated" not in out)
    if not res.ok:
        errs = [l for l in res.lines if l.startswith("Error:") or "is violated" in l or "Exception" in l]
        res.error = "; ".join(errs[:5]) or "TLC failed"
        if not allow_violation:
            tail = "\n".join(l[:400] for l in res.lines[-40:])
            raise ToolError(f"TLC error in {tla} / {cfg}: {res.error}\n{tail}")
    return res


def model_check(ctx, cfg, tla, workers=4, extra=(), timeout=1800, env=None, xmx="6g", coverage=False):
    """Exhaustive check of a bounded model of the specification (design level).
    coverage=True adds TLC's per-action statistics (cheap on small models, very slow on large images)."""
    res = run_tlc(cfg, tla, workers=workers, extra=(("-coverage", "1") if coverage else ()) + tuple(extra), timeout=timeout,
                  env=env, xmx=xmx)
    ctx.mc_states += res.distinct
    ctx.mc_transitions += res.generated
    ctx.mc_runs.append({"model": os.path.basename(tla), "cfg": os.path.basename(cfg), "distinct_states": res.distinct,
                        "states_generated": res.generated, "wall_s": round(res.wall, 1),
                        "actions_taken": {k: v for k, v in sorted(res.coverage.items()) if ".Next" in k or "Act" in k}})
    log(f"[mc] {os.path.basename(cfg)}: {res.distinct} distinct / {res.generated} generated, {res.wall:.1f}s, {len(res.replays)} replays")
    return res


def simulate(ctx, cfg, tla, num, depth, seed, timeout=600, env=None):
    res = run_tlc(cfg, tla, workers=1, extra=("-simulate", f"num={num}", "-depth", str(depth), "-seed", str(seed)),
                  timeout=timeout, env=env)
    ctx.mc_transitions += res.generated
    ctx.mc_runs.append({"model": os.path.basename(tla), "cfg": os.path.basename(cfg), "mode": f"simulate num={num} depth={depth}",
                        "states_generated": res.generated, "wall_s": round(res.wall, 1)})
    # each behaviour is printed more than once by the simulator's invariant evaluation: dedup
    seen, uniq = set(), []
    for r in res.replays:
        k = json.dumps(r, sort_keys=True)
        if k not in seen:
            seen.add(k)
            uniq.append(r)
    log(f"[sim] {os.path.basename(cfg)}: {len(uniq)} behaviours, {res.wall:.1f}s")
    return uniq


# ----------------------------------------------------------------------------------------------
# harness execution and judging

def write_ndjson(path, items):
    with open(path, "w") as f:
        for it in items:
            f.write(json.dumps(it, separators=(",", ":")))
            f.write("\n")


def exec_programs(ctx, programs, name, profile="release"):
    """Run programs on the real crate; returns path of the events file."""
    h = build_harness(profile)
    pin = ctx.path(name + ".prog.ndjson")
    pout = ctx.path(name + ".events.ndjson")
    write_ndjson(pin, programs)
    r = subprocess.run([h, "exec", pin, pout], stdout=subprocess.PIPE, stderr=subprocess.PIPE, text=True, timeout=3600)
    if r.returncode != 0:
        raise ToolError(f"harness exec failed ({r.returncode}): {r.stderr[-2000:]}")
    m = re.search(r"events=(\d+)", r.stderr)
    n = int(m.group(1)) if m else 0
    return pout, n



def apalache(ctx, module, args, name, timeout=900):
    """Run apalache-mc check on a module of /verif/spec; returns "ok", "error" (counterexample found) or "unavailable"."""
    t0 = time.time()
    try:
        r = subprocess.run(["apalache-mc", "check", "--out-dir=" + ctx.path("apalache-" + name)] + list(args) + [os.path.join(SPEC, module)],
                           cwd=ctx.dir, stdout=subprocess.PIPE, stderr=subprocess.STDOUT, text=True, timeout=timeout)
    except (subprocess.TimeoutExpired, FileNotFoundError) as e:
        return "unavailable: %s" % type(e).__name__, round(time.time() - t0, 1)
    if "EXITCODE: OK" in r.stdout:
        return "ok", round(time.time() - t0, 1)
    if "EXITCODE: ERROR (12)" in r.stdout:
        return "error", round(time.time() - t0, 1)
    return "unavailable: " + r.stdout[-300:].replace("\n", " "), round(time.time() - t0, 1)


def judge_file(trace_cfg, trace_tla, events_path, prop, timeout=1800, env=None, xmx="4g"):
    e = {"TRACE": events_path, "PROP": prop}
    if env:
        e.update(env)
    res = run_tlc(trace_cfg, trace_tla, workers=1, env=e, timeout=timeout, xmx=xmx)
    if res.done is None:
        raise ToolError(f"trace not accepted by {trace_tla}: stuck at event {res.stuck} of {events_path} "
                        f"(the trace specification cannot follow the recorded execution)")
    return res


def run_and_judge(ctx, programs, trace_cfg, trace_tla, name, chunks=None, profile="release", timeout=1800,
                  env=None, keep=False, prop=None):
    """Execute programs on the real crate in `chunks` parallel pieces and have TLC judge every event."""
    if not programs:
        return []
    prop = prop or ctx.prop
    chunks = max(1, min(chunks or NCPU - 2, len(programs)))
    pieces = [programs[i::chunks] for i in range(chunks)]   # round-robin: balances long and short programs
    build_harness(profile)
    t_start = time.time()

    def judge_progs(progs, tag, depth=0):
        """Execute and judge a list of programs; returns (events, generated, fails).  If TLC cannot evaluate the trace
        specification on the recorded execution (an evaluation error, not a parse error), the list is split until the
        offending program is isolated, and that program is reported as a failure of the property being judged: an
        execution the specification cannot even follow is not an execution the specification allows."""
        pout, n = exec_programs(ctx, progs, tag, profile)
        try:
            res = judge_file(trace_cfg, trace_tla, pout, prop, timeout=timeout, env=env)
        except ToolError as e:
            msg = str(e)
            evaluation = ("TLC error in" in msg and "Parsing or semantic" not in msg) or "trace not accepted" in msg
            if not evaluation or depth > 6:
                raise
            if len(progs) == 1:
                short = re.sub(r"\s+", " ", msg)[:300]
                return n, 0, [{"prop": prop, "run": 1, "what": "specification_cannot_follow_execution",
                               "sig": "judge/" + os.path.basename(trace_tla) + "/cannot_follow", "detail": short,
                               "_program": progs[0], "_profile": profile,
                               "_trace": [os.path.basename(trace_cfg), os.path.basename(trace_tla)]}]
            k = min(8, len(progs))
            tot_n, tot_g, fl = 0, 0, []
            for j in range(k):
                sub = progs[j::k]
                a, b, c = judge_progs(sub, f"{tag}_{j}", depth + 1)
                tot_n += a
                tot_g += b
                fl += c
            return tot_n, tot_g, fl
        finally:
            if not keep:
                for suffix in (".prog.ndjson", ".events.ndjson"):
                    try:
                        os.remove(ctx.path(f"{tag}{suffix}"))
                    except OSError:
                        pass
        for f in res.fails:
            run = f.get("run", -1)
            if isinstance(run, int) and 1 <= run <= len(progs):
                f["_program"] = progs[run - 1]
            f["_profile"] = profile
            f["_trace"] = [os.path.basename(trace_cfg), os.path.basename(trace_tla)]
        return n, res.generated, res.fails

    class _R:
        pass

    def one(idx):
        n, g, fl = judge_progs(pieces[idx], f"{name}.{idx}")
        r = _R()
        r.generated, r.fails = g, fl
        return n, r

    fails = []
    with cf.ThreadPoolExecutor(max_workers=chunks) as ex:
        for n, res in ex.map(one, range(len(pieces))):
            ctx.events += n
            ctx.mc_transitions += res.generated
            fails += res.fails
    ctx.programs += len(programs)
    ctx.traces += len(programs)
    ctx.fails += fails
    log(f"[judge] {name}: {len(programs)} programs in {len(pieces)} pieces, {len(fails)} FAIL records, {time.time() - t_start:.1f}s")
    return fails


# ----------------------------------------------------------------------------------------------
# known findings, verdict, evidence

def load_known():
    p = os.path.join(VERIF, "known_findings.json")
    if not os.path.exists(p):
        return []
    with open(p) as f:
        return json.load(f).get("findings", [])


def sig_of(f):
    return f.get("sig") or f.get("what") or "unspecified"


def finish(ctx, level="model_checking", rule="", exhaustive=False, checker_cmd=None):
    """Classify FAIL records, print verdict lines, write evidence, return exit code."""
    known = [k for k in load_known() if k.get("property") == ctx.prop and k.get("status") == "known"]
    by_sig = {}
    for f in ctx.fails:
        if f.get("prop") != ctx.prop:
            continue
        by_sig.setdefault(sig_of(f), []).append(f)
    violations = 0
    reported_known = set()
    rdir = os.path.join(WORK, "replays")
    for sig, fs in sorted(by_sig.items()):
        k = next((k for k in known if k["sig"] == sig), None)
        if k:
            if sig not in reported_known:
                print(f"KNOWN-FINDING: property={ctx.prop} {sig}: {k.get('what', '')} ({len(fs)} occurrences this run)")
                reported_known.add(sig)
            continue
        violations += 1
        os.makedirs(rdir, exist_ok=True)
        path = os.path.join(rdir, f"{ctx.prop}-{re.sub(r'[^A-Za-z0-9_.-]+', '_', sig)[:80]}.json")
        f0 = fs[0]
        prog = f0.get("_program")
        with open(path, "w") as fh:
            json.dump({"property": ctx.prop, "sig": sig, "occurrences": len(fs),
                       "fail": {k: v for k, v in f0.items() if not k.startswith("_")},
                       "program": prog, "profile": f0.get("_profile", "release"), "trace": f0.get("_trace"),
                       "seed": ctx.seed, "tier": ctx.tier}, fh, indent=1)
        log(f"[violation] {sig}: {json.dumps({k: v for k, v in f0.items() if not k.startswith('_')})[:600]}")
        print(f"VIOLATION property={ctx.prop} replay={path}")
    wall = time.time() - ctx.t0
    cov = {
        "states": max(1, ctx.mc_states),
        "transitions": max(1, ctx.mc_transitions),
        "traces_validated_against_impl": ctx.traces,
        "samples": ctx.samples[:6] or ["(no sample recorded)"],
        "evaluations": max(1, ctx.n or ctx.events),
        "distinct_nontrivial": max(len(ctx.distinct), 0) if ctx.distinct else max(2, ctx.programs),
        "rule": rule,
        "events_judged_by_tlc": ctx.events,
        "programs_executed_on_impl": ctx.programs,
        "model_checking_runs": ctx.mc_runs,
        "exhaustive": exhaustive,
        "fail_records": len([f for f in ctx.fails if f.get("prop") == ctx.prop]),
        "known_findings_matched": sorted(reported_known),
    }
    if checker_cmd:
        cov["checker_cmd"] = checker_cmd
    cov.update(ctx.extra)
    ev = {
        "property_id": ctx.prop, "tier": ctx.tier, "seed": ctx.seed, "level": level, "coverage": cov,
        "assumptions": ctx.assumptions + [
            "TLC 1.8.0 and the CommunityModules Json/IOUtils modules are trusted",
            "the harness logs exactly the arguments it passed to the crate and the bytes the crate returned",
        ],
        "wall_s": round(wall, 2), "violations": violations,
    }
    # (bin/seedtest and friends redirect the evidence of runs against a deliberately broken tree to a scratch directory)
    evdir = os.environ.get("VERIF_EVIDENCE_DIR") or os.path.join(VERIF, "evidence")
    os.makedirs(evdir, exist_ok=True)
    with open(os.path.join(evdir, ctx.prop + ".json"), "w") as fh:
        json.dump(ev, fh, indent=1)
    log(f"[done] {ctx.prop} {ctx.tier}: events={ctx.events} programs={ctx.programs} violations={violations} wall={wall:.1f}s")
    ctx.cleanup()
    return 1 if violations else 0


# ----------------------------------------------------------------------------------------------
# deterministic PRNG for drivers (all randomness derives from VERIF_SEED)

MARKERS = [0x00, 0x01, 0x06, 0x08, 0x0A, 0x0B, 0x0C, 0x0D, 0x0E, 0x10, 0x11, 0x12, 0x13, 0x14, 0x2E, 0x2F, 0x5B, 0x5C, 0x5E, 0x5F,
           0x60, 0x68, 0x70, 0x79, 0x7F, 0x80, 0x86, 0xA0, 0xA1, 0xA2, 0xA4, 0xFF]


class Rng:
    def __init__(self, seed):
        self.s = (seed * 0x9E3779B97F4A7C15 + 0x1234567) & 0xFFFFFFFFFFFFFFFF

    def next(self):
        self.s = (self.s + 0x9E3779B97F4A7C15) & 0xFFFFFFFFFFFFFFFF
        z = self.s
        z = ((z ^ (z >> 30)) * 0xBF58476D1CE4E5B9) & 0xFFFFFFFFFFFFFFFF
        z = ((z ^ (z >> 27)) * 0x94D049BB133111EB) & 0xFFFFFFFFFFFFFFFF
        return z ^ (z >> 31)

    def below(self, n):
        return self.next() % n

    def choice(self, xs):
        return xs[self.below(len(xs))]

    def chance(self, num, den):
        return self.below(den) < num

    def bytes(self, n):
        return [self.below(256) for _ in range(n)]

    def scalar(self, width):
        """A width-byte scalar biased to boundaries, single-bit and byte-fill patterns; returns LE byte list."""
        bits = 8 * width
        k = self.below(12)
        if k >= 10:
            # bytes that mean something to an encoder or a parser (AML opcodes and prefixes, the resource end tag 0x79,
            # NUL, '\\', '^', '.', '/', '_'), zero half of the time: values that mimic structure
            return [self.choice(MARKERS) if self.chance(1, 2) else self.choice([0x00, 0x79]) for _ in range(width)]
        if k == 0:
            v = 0
        elif k == 1:
            v = (1 << bits) - 1
        elif k == 2:
            v = 1 << self.below(bits)
        elif k == 3:
            v = ((1 << bits) - 1) ^ (1 << self.below(bits))
        elif k == 4:
            b = self.below(256)
            v = int.from_bytes(bytes([b] * width), "little")
        elif k == 5:
            e = self.choice([7, 8, 15, 16, 31, 32, 63, 64])      # byte-width and sign boundaries
            e = min(e, bits)
            v = ((1 << e) + self.below(5) - 2) & ((1 << bits) - 1)
        else:
            v = self.next() & ((1 << bits) - 1)
        return list(v.to_bytes(width, "little"))


def le(v, w):
    return list(int(v).to_bytes(w, "little"))
