#!/bin/sh
# usage: tlc.sh <workers> <metadir> <cfg> <tla> [extra TLC args...]
# Lean JVM settings (see DESIGN.md section 9): serial GC, small stack, explicit heap.
# TLC and SANY leave one scratch directory per run in java.io.tmpdir: the caller passes a private one (TLC_TMP) and removes it.
W="$1"; MD="$2"; CFG="$3"; TLA="$4"; shift 4
exec java -XX:+UseSerialGC -Xss${TLC_XSS:-16m} -Xmx${TLC_XMX:-4g} ${TLC_JVM_OPTS:-} -Djava.io.tmpdir="${TLC_TMP:-/tmp}" \
  -cp /opt/veriftools/tla/tla2tools.jar:/opt/veriftools/tla/CommunityModules-deps.jar \
  tlc2.TLC -workers "$W" -fpmem 0.05 -metadir "$MD" -cleanup -noGenerateSpecTE -config "$CFG" "$@" "$TLA"
