------------------------------ MODULE AmlBase ------------------------------
(***************************************************************************)
(* The pure AML encoders of ACPI 6.5 section 20.2 with their decoders:     *)
(* PkgLength (20.2.4), integer constants (20.2.3 ComputationalData),       *)
(* NameString (20.2.2), EISA id compression (19.3.4 / 6.1.5), ToUUID       *)
(* (19.6.142).  Integers that may exceed 2^31 are little-endian byte       *)
(* strings (Bytes.tla).                                                    *)
(***************************************************************************)
EXTENDS Bytes

---------------------------------------------------------------------------
(* PkgLength := PkgLeadByte | <PkgLeadByte ByteData> | ... (up to 3 ByteData)
   bits 7-6 of the lead byte: number of ByteData that follow; one-byte form: bits 5-0 are the length (0..63);
   multi-byte form: bits 5-4 reserved (zero), bits 3-0 = least significant nibble, following bytes next 8 bits each.
   All lengths here are < 2^28 and fit TLA+ integers. *)

\* encode the VALUE v (what the PkgLength decodes to) in exactly k bytes
PkgBytes(v, k) ==
  IF k = 1 THEN <<v>>
  ELSE <<(k - 1) * 64 + (v % 16)>> \o [i \in 1..(k - 1) |-> (v \div (16 * Pow2(8 * (i - 1)))) % 256]
\* largest value representable in k bytes
PkgMax(k) == CASE k = 1 -> 63 [] k = 2 -> 4095 [] k = 3 -> 1048575 [] k = 4 -> 268435455
\* self-inclusive form: content of n bytes follows; the value counts the PkgLength bytes themselves; shortest k
InclK(n) == CHOOSE k \in 1..4 : n + k <= PkgMax(k) /\ \A j \in 1..(k - 1) : n + j > PkgMax(j)
InclFits(n) == n + 4 <= PkgMax(4)
PkgIncl(n) == PkgBytes(n + InclK(n), InclK(n))
\* exclusive form (field-list entries): the value is the width itself; any well-formed encoding is acceptable
ExclFits(n) == n <= PkgMax(4)

\* decoder: at 0-based position pos of b; returns [ok, v, k]
PkgDec(b, pos) ==
  IF pos + 1 > Len(b) THEN [ok |-> FALSE, v |-> 0, k |-> 0]
  ELSE LET lead == b[pos + 1] k == (lead \div 64) + 1 IN
       IF pos + k > Len(b) THEN [ok |-> FALSE, v |-> 0, k |-> k]
       ELSE IF k = 1 THEN [ok |-> TRUE, v |-> lead % 64, k |-> 1]
       ELSE [ok |-> (lead \div 16) % 4 = 0,          \* bits 5-4 must be zero when follow bytes are present
             v |-> (lead % 16) + 16 * (b[pos + 2] + (IF k >= 3 THEN 256 * b[pos + 3] ELSE 0)
                                       + (IF k >= 4 THEN 65536 * b[pos + 4] ELSE 0)),
             k |-> k]
\* the shortest number of bytes that can carry the value v
MinK(v) == CHOOSE k \in 1..4 : v <= PkgMax(k) /\ \A j \in 1..(k - 1) : v > PkgMax(j)

---------------------------------------------------------------------------
(* Integer constants: ZeroOp, OneOp, BytePrefix 0A, WordPrefix 0B, DWordPrefix 0C, QWordPrefix 0E.
   v is an 8-byte little-endian string. *)
SigBytes(v) == LET nz == {i \in 1..Len(v) : v[i] # 0} IN IF nz = {} THEN 0 ELSE CHOOSE i \in nz : \A j \in nz : j <= i
IntEnc(v) ==
  LET s == SigBytes(v) IN
  IF s = 0 THEN <<0>>
  ELSE IF s = 1 /\ v[1] = 1 THEN <<1>>
  ELSE IF s <= 1 THEN <<10, v[1]>>
  ELSE IF s <= 2 THEN <<11>> \o SubSeq(v, 1, 2)
  ELSE IF s <= 4 THEN <<12>> \o SubSeq(v, 1, 4)
  ELSE <<14>> \o SubSeq(v, 1, 8)
IntOfNat(n) == LE(n, 8)                    \* n < 2^31
\* decoder at position pos: [ok, v (8 bytes), n (next position)]
IntDec(b, pos) ==
  IF pos + 1 > Len(b) THEN [ok |-> FALSE, v |-> Zeros(8), n |-> pos]
  ELSE LET op == b[pos + 1]
           w == CASE op = 10 -> 1 [] op = 11 -> 2 [] op = 12 -> 4 [] op = 14 -> 8 [] OTHER -> 0 IN
       IF op = 0 THEN [ok |-> TRUE, v |-> Zeros(8), n |-> pos + 1]
       ELSE IF op = 1 THEN [ok |-> TRUE, v |-> One(8), n |-> pos + 1]
       ELSE IF w = 0 \/ pos + 1 + w > Len(b) THEN [ok |-> FALSE, v |-> Zeros(8), n |-> pos]
       ELSE [ok |-> TRUE, v |-> W(Slice(b, pos + 1, w), 8), n |-> pos + 1 + w]
IsIntOp(op) == op \in {0, 1, 10, 11, 12, 14}

---------------------------------------------------------------------------
(* NameString := <RootChar NamePath> | <PrefixPath NamePath>; NamePath := NameSeg | DualNamePath (2E) |
   MultiNamePath (2F SegCount) | NullName.  The crate's Path has an optional root and >= 1 segments.
   A path is [root |-> BOOLEAN, segs |-> sequence of 4-byte segments]. *)
NameEnc(p) ==
  (IF p.root THEN <<92>> ELSE <<>>) \o
  (CASE Len(p.segs) = 1 -> <<>> [] Len(p.segs) = 2 -> <<46>> [] OTHER -> <<47, Len(p.segs)>>) \o Flat(p.segs)
NameFits(p) == Len(p.segs) >= 1 /\ Len(p.segs) <= 255 /\ \A i \in 1..Len(p.segs) : Len(p.segs[i]) = 4

\* split a character string (bytes) at '.' (46) after an optional leading '\' (92)
SplitDots(s) ==
  LET step(acc, c) == IF c = 46 THEN [done |-> Append(acc.done, acc.cur), cur |-> <<>>]
                               ELSE [done |-> acc.done, cur |-> Append(acc.cur, c)]
      r == FoldLeft(step, [done |-> <<>>, cur |-> <<>>], s)
  IN Append(r.done, r.cur)
ParsePath(s) ==
  LET root == Len(s) >= 1 /\ s[1] = 92
      rest == IF root THEN SubSeq(s, 2, Len(s)) ELSE s
  IN [root |-> root, segs |-> SplitDots(rest)]
\* well-formed: every segment exactly four characters
PathWellFormed(s) == LET p == ParsePath(s) IN \A i \in 1..Len(p.segs) : Len(p.segs[i]) = 4

IsLeadNameChar(c) == (c >= 65 /\ c <= 90) \/ c = 95
IsNameChar(c) == IsLeadNameChar(c) \/ (c >= 48 /\ c <= 57)
PathInAlphabet(s) == LET p == ParsePath(s) IN
  \A i \in 1..Len(p.segs) : /\ Len(p.segs[i]) >= 1 => IsLeadNameChar(p.segs[i][1])
                              /\ \A j \in 2..Len(p.segs[i]) : IsNameChar(p.segs[i][j])
\* decoder at position pos: [ok, p, n]
NameDec(b, pos) ==
  LET root == pos + 1 <= Len(b) /\ b[pos + 1] = 92
      q == IF root THEN pos + 1 ELSE pos IN
  IF q + 1 > Len(b) THEN [ok |-> FALSE, p |-> [root |-> root, segs |-> <<>>], n |-> pos]
  ELSE LET c == b[q + 1]
           cnt == IF c = 46 THEN 2 ELSE IF c = 47 THEN (IF q + 2 <= Len(b) THEN b[q + 2] ELSE 0) ELSE 1
           start == IF c = 46 THEN q + 1 ELSE IF c = 47 THEN q + 2 ELSE q IN
       IF cnt = 0 \/ start + 4 * cnt > Len(b) THEN [ok |-> FALSE, p |-> [root |-> root, segs |-> <<>>], n |-> pos]
       ELSE [ok |-> TRUE, p |-> [root |-> root, segs |-> [i \in 1..cnt |-> Slice(b, start + 4 * (i - 1), 4)]],
             n |-> start + 4 * cnt]
StartsName(c) == c = 92 \/ c = 46 \/ c = 47 \/ c = 94 \/ IsLeadNameChar(c)

---------------------------------------------------------------------------
(* EISA id "UUUNNNN": three letters A-Z compressed to 5 bits each (letter - 0x40), four hex digits;
   the 32-bit value is byte-swapped: byte0 = 0 c1[4:0] c2[4:3]; byte1 = c2[2:0] c3[4:0]; byte2 = h1 h2; byte3 = h3 h4.
   The id is given as 7 characters. *)
HexVal(c) == IF c >= 48 /\ c <= 57 THEN c - 48 ELSE IF c >= 65 /\ c <= 70 THEN c - 55
             ELSE IF c >= 97 /\ c <= 102 THEN c - 87 ELSE -1
IsUpper(c) == c >= 65 /\ c <= 90
\* number of characters of a UTF-8 byte string (continuation bytes 10xxxxxx do not start a character)
CharLen(s) == Cardinality({i \in 1..Len(s) : s[i] \div 64 # 2})
EisaValid(s) == Len(s) = 7 /\ (\A i \in 1..3 : IsUpper(s[i])) /\ (\A j \in 4..7 : HexVal(s[j]) >= 0)
EisaCompress(s) ==
  LET c1 == s[1] - 64 c2 == s[2] - 64 c3 == s[3] - 64 IN
  <<c1 * 4 + (c2 \div 8), (c2 % 8) * 32 + c3, HexVal(s[4]) * 16 + HexVal(s[5]), HexVal(s[6]) * 16 + HexVal(s[7])>>
HexChar(v) == IF v < 10 THEN 48 + v ELSE 55 + v            \* upper case
EisaDecompress(b) ==
  <<64 + ((b[1] \div 4) % 32), 64 + ((b[1] % 4) * 8 + (b[2] \div 32)), 64 + (b[2] % 32),
    HexChar(b[3] \div 16), HexChar(b[3] % 16), HexChar(b[4] \div 16), HexChar(b[4] % 16)>>
UpperHex(c) == IF c >= 97 /\ c <= 102 THEN c - 32 ELSE c
EisaCanon(s) == [i \in 1..7 |-> IF i <= 3 THEN s[i] ELSE UpperHex(s[i])]

---------------------------------------------------------------------------
(* ToUUID("aabbccdd-eeff-gghh-iijj-kkllmmnnoopp") = dd cc bb aa ff ee hh gg ii jj kk ll mm nn oo pp *)
UuidValid(s) == /\ Len(s) = 36
                /\ (\A i \in {9, 14, 19, 24} : s[i] = 45)
                /\ (\A j \in (1..36) \ {9, 14, 19, 24} : HexVal(s[j]) >= 0)
HexByte(s, i) == HexVal(s[i]) * 16 + HexVal(s[i + 1])
UuidBytes(s) == <<HexByte(s, 7), HexByte(s, 5), HexByte(s, 3), HexByte(s, 1), HexByte(s, 12), HexByte(s, 10),
                  HexByte(s, 17), HexByte(s, 15), HexByte(s, 20), HexByte(s, 22), HexByte(s, 25), HexByte(s, 27),
                  HexByte(s, 29), HexByte(s, 31), HexByte(s, 33), HexByte(s, 35)>>
LowerHexChar(v) == IF v < 10 THEN 48 + v ELSE 87 + v
Hex2(v) == <<LowerHexChar(v \div 16), LowerHexChar(v % 16)>>
\* back from the 16-byte buffer to the canonical lower-case string
UuidString(b) == Hex2(b[4]) \o Hex2(b[3]) \o Hex2(b[2]) \o Hex2(b[1]) \o <<45>> \o Hex2(b[6]) \o Hex2(b[5]) \o <<45>> \o
                 Hex2(b[8]) \o Hex2(b[7]) \o <<45>> \o Hex2(b[9]) \o Hex2(b[10]) \o <<45>> \o
                 Hex2(b[11]) \o Hex2(b[12]) \o Hex2(b[13]) \o Hex2(b[14]) \o Hex2(b[15]) \o Hex2(b[16])
LowerHex(c) == IF c >= 65 /\ c <= 70 THEN c + 32 ELSE c
UuidCanon(s) == [i \in 1..36 |-> LowerHex(s[i])]
=============================================================================
