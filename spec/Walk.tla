-------------------------------- MODULE Walk --------------------------------
(***************************************************************************)
(* Independent readers of table bodies (C03, C05).  A walker is given only *)
(* the table kind and bytes.  It starts at the governing specification's   *)
(* first-entry offset and steps by each entry's OWN length field (or by    *)
(* the fixed size the specification assigns to the entry's type where      *)
(* entries carry no length), checking on the way that every field which    *)
(* summarises a sub-array (element counts, array offsets, string lengths)  *)
(* agrees with the entry's length, and that the table-level counts and     *)
(* array offsets agree with what the walk finds.  It never consults the    *)
(* reference encoders of Layouts.tla nor anything of the crate.            *)
(***************************************************************************)
EXTENDS Bytes

In(img, off, n) == off >= 0 /\ n >= 0 /\ off + n <= Len(img)
R8(img, off) == img[off + 1]
R16(img, off) == img[off + 1] + 256 * img[off + 2]
\* 32-bit little-endian read, saturating: anything >= 2^24 is reported as 16777216 (no table here is that large)
R32(img, off) == IF img[off + 4] # 0 THEN 16777216 ELSE img[off + 1] + 256 * img[off + 2] + 65536 * img[off + 3]

Bad == [ok |-> FALSE, type |-> -1, len |-> 0, subs |-> <<>>]
Ent(okk, t, l, s) == [ok |-> okk, type |-> t, len |-> l, subs |-> s]

MadtLen == [t \in {0, 1, 11, 12, 13, 14, 15, 24, 25, 26, 27} |->
              CASE t = 0 -> 8 [] t = 1 -> 12 [] t = 11 -> 82 [] t = 12 -> 24 [] t = 13 -> 24 [] t = 14 -> 16 [] t = 15 -> 20
                [] t = 24 -> 36 [] t = 25 -> 16 [] t = 26 -> 36 [] t = 27 -> 36]
SratLen == [t \in {1, 5, 7} |-> CASE t = 1 -> 40 [] t = 5 -> 32 [] t = 7 -> 20]
ViotLen == [t \in {1, 2, 3, 4} |-> CASE t = 1 -> 24 [] t = 2 -> 24 [] t = 3 -> 16 [] t = 4 -> 16]
HestLen == [t \in {6, 7, 8, 9, 10} |-> CASE t = 6 -> 48 [] t = 7 -> 44 [] t = 8 -> 56 [] t = 9 -> 64 [] t = 10 -> 92]
CxlWays == [c \in {0, 1, 2, 3, 4, 8, 9, 10} |->
              CASE c = 0 -> 1 [] c = 1 -> 2 [] c = 2 -> 4 [] c = 3 -> 8 [] c = 4 -> 16 [] c = 8 -> 3 [] c = 9 -> 6 [] c = 10 -> 12]

NoNul(img, off, n) == \A k \in 0..(n - 1) : img[off + k + 1] # 0

\* RQSC resources inside a controller: walk [from, to) by each resource's own length (>= 20)
RECURSIVE ResWalk(_, _, _, _)
ResWalk(img, off, to, n) ==
  IF off = to THEN [ok |-> TRUE, n |-> n]
  ELSE IF ~In(img, off, 4) \/ off + 4 > to THEN [ok |-> FALSE, n |-> n]
  ELSE LET l == R16(img, off + 2) IN
       IF l < 20 \/ off + l > to THEN [ok |-> FALSE, n |-> n] ELSE ResWalk(img, off + l, to, n + 1)

\* one entry at offset off of a table of the given kind, limit = end of the image
Step(kind, img, off, end) ==
  CASE kind \in {"MADT", "SRAT"} ->
         IF off + 2 > end THEN Bad
         ELSE LET t == R8(img, off) l == R8(img, off + 1)
                  fixed == IF kind = "MADT" THEN MadtLen ELSE SratLen IN
              Ent(l >= 2 /\ off + l <= end /\ t \in DOMAIN fixed /\ fixed[t] = l, t, l, <<>>)
    [] kind = "PPTT" ->
         IF off + 2 > end THEN Bad
         ELSE LET t == R8(img, off) l == R8(img, off + 1) IN
              IF l < 2 \/ off + l > end THEN Ent(FALSE, t, l, <<>>)
              ELSE IF t = 0 THEN (IF l < 20 THEN Ent(FALSE, t, l, <<>>)
                                  ELSE LET n == R32(img, off + 16) IN Ent(l = 20 + 4 * n, t, l, <<n>>))
              ELSE Ent(t = 1 /\ l = 28, t, l, <<>>)
    [] kind = "HMAT" ->
         IF off + 8 > end THEN Bad
         ELSE LET t == R16(img, off) l == R32(img, off + 4) IN
              IF l < 8 \/ off + l > end THEN Ent(FALSE, t, l, <<>>)
              ELSE IF t = 0 THEN Ent(l = 40, t, l, <<>>)
              ELSE IF t = 1 THEN (IF l < 32 THEN Ent(FALSE, t, l, <<>>)
                                  ELSE LET s == R32(img, off + 12) tt == R32(img, off + 16) IN
                                       Ent(s < 4096 /\ tt < 4096 /\ l = 32 + 4 * s + 4 * tt + 2 * s * tt, t, l, <<s, tt>>))
              ELSE IF t = 2 THEN (IF l < 32 THEN Ent(FALSE, t, l, <<>>)
                                  ELSE LET n == R16(img, off + 30) IN Ent(l = 32 + 2 * n, t, l, <<n>>))
              ELSE Ent(FALSE, t, l, <<>>)
    [] kind = "CEDT" ->
         IF off + 4 > end THEN Bad
         ELSE LET t == R8(img, off) l == R16(img, off + 2) IN
              IF l < 4 \/ off + l > end THEN Ent(FALSE, t, l, <<>>)
              ELSE IF t = 0 THEN Ent(l = 32, t, l, <<>>)
              ELSE IF t = 1 THEN (IF l < 36 THEN Ent(FALSE, t, l, <<>>)
                                  ELSE LET c == R8(img, off + 24) IN
                                       IF c \notin DOMAIN CxlWays THEN Ent(FALSE, t, l, <<>>)
                                       ELSE Ent(l = 36 + 4 * CxlWays[c], t, l, <<CxlWays[c]>>))
              ELSE IF t = 2 THEN (IF l < 8 THEN Ent(FALSE, t, l, <<>>)
                                  ELSE LET n == R8(img, off + 7) IN Ent(l = 8 + 8 * n, t, l, <<n>>))
              ELSE IF t = 3 THEN Ent(l = 17, t, l, <<>>)
              ELSE Ent(FALSE, t, l, <<>>)
    [] kind = "RHCT" ->
         IF off + 6 > end THEN Bad
         ELSE LET t == R16(img, off) l == R16(img, off + 2) IN
              IF l < 6 \/ off + l > end THEN Ent(FALSE, t, l, <<>>)
              ELSE IF t = 0 THEN (IF l < 10 THEN Ent(FALSE, t, l, <<>>)
                                  ELSE LET n == R16(img, off + 6)          \* string length including the NUL
                                           need == 8 + n + ((8 + n) % 2) IN
                                       \* (the string is the caller's: only its declared length, the terminator and the padding are judged)
                                       Ent(n >= 1 /\ l = need /\ R8(img, off + 8 + n - 1) = 0
                                           /\ (need > 8 + n => R8(img, off + 8 + n) = 0), t, l, <<n>>))
              ELSE IF t = 1 THEN Ent(l = 10, t, l, <<>>)
              ELSE IF t = 2 THEN Ent(l = 8, t, l, <<>>)
              ELSE IF t = 65535 THEN (IF l < 12 THEN Ent(FALSE, t, l, <<>>)
                                      ELSE LET n == R16(img, off + 6) IN Ent(l = 12 + 4 * n, t, l, <<n>>))
              ELSE Ent(FALSE, t, l, <<>>)
    [] kind = "RIMT" ->
         IF off + 4 > end THEN Bad
         ELSE LET t == R8(img, off) l == R16(img, off + 2) IN
              IF l < 4 \/ off + l > end THEN Ent(FALSE, t, l, <<>>)
              ELSE IF t = 0 THEN (IF l < 32 THEN Ent(FALSE, t, l, <<>>)
                                  ELSE LET w == R16(img, off + 28) wo == R16(img, off + 30) IN
                                       Ent(wo = 32 /\ l = wo + 8 * w, t, l, <<w>>))
              ELSE IF t = 1 THEN (IF l < 16 THEN Ent(FALSE, t, l, <<>>)
                                  ELSE LET mo == R16(img, off + 12) m == R16(img, off + 14) IN
                                       Ent(mo = 16 /\ l = mo + 20 * m, t, l, <<m>>))
              ELSE IF t = 2 THEN (IF l < 13 THEN Ent(FALSE, t, l, <<>>)
                                  ELSE LET mo == R16(img, off + 8) m == R16(img, off + 10) IN
                                       IF mo < 13 \/ mo > l THEN Ent(FALSE, t, l, <<m>>)
                                       ELSE Ent(l = mo + 20 * m /\ R8(img, off + mo - 1) = 0, t, l, <<m, mo - 13>>))
              ELSE Ent(FALSE, t, l, <<>>)
    [] kind = "VIOT" ->
         IF off + 4 > end THEN Bad
         ELSE LET t == R8(img, off) l == R16(img, off + 2) IN
              Ent(l >= 4 /\ off + l <= end /\ t \in DOMAIN ViotLen /\ ViotLen[t] = l, t, l, <<>>)
    [] kind = "HEST" ->
         IF off + 2 > end THEN Bad
         ELSE LET t == R16(img, off) IN
              IF t \notin DOMAIN HestLen \/ off + HestLen[t] > end THEN Ent(FALSE, t, 0, <<>>)
              ELSE Ent(t \in {9, 10} => R8(img, off + 33) = 28, t, HestLen[t], <<>>)   \* notification's own length field
    [] kind = "RQSC" ->
         IF off + 28 > end THEN Bad
         ELSE LET t == R8(img, off) l == R16(img, off + 2) n == R16(img, off + 26) IN
              IF l < 28 \/ off + l > end THEN Ent(FALSE, t, l, <<n>>)
              ELSE LET rw == ResWalk(img, off + 28, off + l, 0) IN Ent(rw.ok /\ rw.n = n, t, l, <<n>>)
    [] kind = "MCFG" -> IF off + 16 > end THEN Bad ELSE Ent(TRUE, 0, 16, <<>>)
    [] kind = "XSDT" -> IF off + 8 > end THEN Bad ELSE Ent(TRUE, 0, 8, <<>>)

FirstOff == [XSDT |-> 36, MCFG |-> 44, MADT |-> 44, SRAT |-> 48, HMAT |-> 40, PPTT |-> 36, CEDT |-> 36, RHCT |-> 56,
             RIMT |-> 48, VIOT |-> 48, HEST |-> 40, RQSC |-> 40]
WalkKinds == DOMAIN FirstOff

RECURSIVE WalkRec(_, _, _, _)
WalkRec(kind, img, off, acc) ==
  IF off = Len(img) THEN [ok |-> TRUE, ents |-> acc, stop |-> off]
  ELSE LET e == Step(kind, img, off, Len(img)) IN
       IF ~e.ok THEN [ok |-> FALSE, ents |-> acc, stop |-> off, bad |-> e]
       ELSE WalkRec(kind, img, off + e.len, Append(acc, [off |-> off, type |-> e.type, len |-> e.len, subs |-> e.subs]))

\* table-level summary fields: counts and array offsets
SummaryOk(kind, img, n) ==
  CASE kind = "RHCT" -> R32(img, 48) = n /\ R32(img, 52) = 56
    [] kind = "RIMT" -> R32(img, 36) = n /\ R32(img, 40) = 48
    [] kind = "VIOT" -> R16(img, 36) = n /\ R16(img, 38) = 48
    [] kind \in {"HEST", "RQSC"} -> R32(img, 36) = n
    [] OTHER -> TRUE

Walk(kind, img) ==
  IF Len(img) < FirstOff[kind] THEN [ok |-> FALSE, ents |-> <<>>, stop |-> 0, summary |-> FALSE]
  ELSE LET w == WalkRec(kind, img, FirstOff[kind], <<>>) IN w @@ [summary |-> SummaryOk(kind, img, Len(w.ents))]

Shape(w) == [i \in 1..Len(w.ents) |-> <<w.ents[i].type, w.ents[i].len, w.ents[i].subs>>]
Offsets(w) == [i \in 1..Len(w.ents) |-> w.ents[i].off]

\* SLIT: locality count n (8 bytes at 36) and exactly n*n matrix bytes
SlitOk(img) == /\ Len(img) >= 44
               /\ \A k \in 38..43 : img[k + 1] = 0          \* n < 65536 here
               /\ LET n == R16(img, 36) IN n < 1024 /\ Len(img) = 44 + n * n
=============================================================================
