------------------------------- MODULE Bytes -------------------------------
(***************************************************************************)
(* Byte strings and little-endian scalars.                                 *)
(*                                                                         *)
(* Every image, every field and every caller-supplied scalar in this       *)
(* specification is a sequence of bytes (0..255).  TLC integers are 32-bit *)
(* signed, so scalars that may reach 2^31 (u32, u64, usize) are never TLA+ *)
(* integers: they travel as little-endian byte strings and arithmetic on   *)
(* them is the byte-wise arithmetic defined here.                          *)
(* Offsets are 0-based (as in the ACPI tables); Seq indices are 1-based.   *)
(***************************************************************************)
EXTENDS Naturals, Sequences, SequencesExt, FiniteSets, Functions

Byte == 0..255

IsBytes(s) == /\ DOMAIN s = 1..Len(s)
              /\ \A i \in 1..Len(s) : s[i] \in Byte

Zeros(n) == [i \in 1..n |-> 0]
Fill(n, b) == [i \in 1..n |-> b]

\* n-th power of two, n <= 30
RECURSIVE Pow2(_)
Pow2(n) == IF n = 0 THEN 1 ELSE 2 * Pow2(n - 1)

\* little-endian encoding of a natural n < 2^31 in w bytes (truncating)
LE(n, w) == [i \in 1..w |-> IF i > 4 THEN 0 ELSE (n \div Pow2(8 * (i - 1))) % 256]

\* zero-extend (or check) a byte string to width w
W(s, w) == IF Len(s) >= w THEN SubSeq(s, 1, w) ELSE s \o Zeros(w - Len(s))

\* 0-based slice
Slice(s, off, n) == SubSeq(s, off + 1, off + n)
From(s, off) == SubSeq(s, off + 1, Len(s))

\* value of a short little-endian string as a TLA+ integer; caller guarantees < 2^31
Val(s) == LET n == Len(s) IN
  (IF n >= 1 THEN s[1] ELSE 0) + (IF n >= 2 THEN s[2] * 256 ELSE 0)
  + (IF n >= 3 THEN s[3] * 65536 ELSE 0) + (IF n >= 4 THEN s[4] * 16777216 ELSE 0)

\* does the little-endian string fit a TLA+ integer (< 2^31)?
Small(s) == /\ \A i \in 1..Len(s) : i > 4 => s[i] = 0
            /\ (Len(s) >= 4 => s[4] < 128)

U8At(s, off) == s[off + 1]
U16At(s, off) == s[off + 1] + 256 * s[off + 2]
U32BytesAt(s, off) == Slice(s, off, 4)
\* only meaningful when the dword is < 2^31
U32At(s, off) == Val(Slice(s, off, 4))

Sum8(s) == FoldLeft(LAMBDA a, b : (a + b) % 256, 0, s)
\* the byte that makes a string sum to 0 mod 256
Cksum(s) == (256 - Sum8(s)) % 256

\* replace n bytes at 0-based offset off
Patch(s, off, v) == [i \in 1..Len(s) |-> IF i > off /\ i <= off + Len(v) THEN v[i - off] ELSE s[i]]

\* set of 0-based positions where two equally long strings differ
DiffPos(a, b) == {i \in 0..(Len(a) - 1) : a[i + 1] # b[i + 1]}
FirstDiff(a, b) ==
  IF Len(a) # Len(b) /\ \A i \in 1..(IF Len(a) < Len(b) THEN Len(a) ELSE Len(b)) : a[i] = b[i]
  THEN (IF Len(a) < Len(b) THEN Len(a) ELSE Len(b))
  ELSE LET m == IF Len(a) < Len(b) THEN Len(a) ELSE Len(b)
           D == {i \in 1..m : a[i] # b[i]}
       IN IF D = {} THEN -1 ELSE (CHOOSE i \in D : \A j \in D : i <= j) - 1

\* flatten a sequence of byte strings (divide and conquer: a left fold copies the accumulator once per element,
\* which is quadratic for the thousands of entries of the long histories)
RECURSIVE Flat(_)
Flat(ss) == IF Len(ss) <= 4 THEN FoldLeft(LAMBDA acc, x : acc \o x, <<>>, ss)
            ELSE LET h == Len(ss) \div 2 IN Flat(SubSeq(ss, 1, h)) \o Flat(SubSeq(ss, h + 1, Len(ss)))
\* the same when every element has width w (linear instead of quadratic: lists of 65 536 handles occur in C18)
FlatW(ss, w) == [i \in 1..(w * Len(ss)) |-> ss[((i - 1) \div w) + 1][((i - 1) % w) + 1]]

\* bit sets <-> little-endian flag fields: bits is a set of bit numbers
BitsLE(bits, w) ==
  [i \in 1..w |-> FoldLeft(LAMBDA acc, b : acc + (IF (8 * (i - 1) + b) \in bits THEN Pow2(b) ELSE 0),
                           0, <<0, 1, 2, 3, 4, 5, 6, 7>>)]
BitSet(s) == {k \in 0..(8 * Len(s) - 1) : (s[(k \div 8) + 1] \div Pow2(k % 8)) % 2 = 1}

---------------------------------------------------------------------------
(* Wide arithmetic on little-endian byte strings of equal length.          *)

\* a + b (+carry) truncated to Len(a); returns [v, c] with carry-out
AddLEc(a, b, cin) ==
  LET step(acc, i) == LET t == a[i] + b[i] + acc.c
                      IN [v |-> Append(acc.v, t % 256), c |-> t \div 256]
  IN FoldLeft(step, [v |-> <<>>, c |-> cin], [i \in 1..Len(a) |-> i])
AddLE(a, b) == AddLEc(a, b, 0).v
AddOverflows(a, b) == AddLEc(a, b, 0).c = 1

\* a - b truncated; borrow-out tells a < b
SubLEb(a, b) ==
  LET step(acc, i) == LET t == a[i] - b[i] - acc.c
                      IN IF t >= 0 THEN [v |-> Append(acc.v, t), c |-> 0]
                                   ELSE [v |-> Append(acc.v, t + 256), c |-> 1]
  IN FoldLeft(step, [v |-> <<>>, c |-> 0], [i \in 1..Len(a) |-> i])
SubLE(a, b) == SubLEb(a, b).v
LessLE(a, b) == SubLEb(a, b).c = 1
LeqLE(a, b) == ~LessLE(b, a)

One(w) == <<1>> \o Zeros(w - 1)
IncLE(a) == AddLE(a, One(Len(a)))
IncOverflows(a) == \A i \in 1..Len(a) : a[i] = 255

\* shift a little-endian string right by k bits (k < 8) / whole bytes
ShrBytes(a, n) == From(a, n) \o Zeros(n)

=============================================================================
