------------------------------ MODULE Trace_Sdt ------------------------------
(* Implementation -> specification for C13: every recorded call on a real    *)
(* Sdt must be the corresponding action of Sdt.tla from the previously       *)
(* observed contents; the observed contents must equal the specification's,  *)
(* sum to zero, carry the right Length after appends, and refused writes     *)
(* must panic and leave the contents unchanged.                              *)
EXTENDS Sdt, TraceCommon

VARIABLE l
tvars == <<data, ghost, l>>
TInit == data = <<>> /\ ghost = <<>> /\ l = 1

E == Rec[l]
Info(what, exp) == [l |-> l, run |-> E.run, ev |-> E.ev, what |-> what, sig |-> "sdt/" \o E.ev \o "/" \o what,
                    at |-> FirstDiff(exp, E.slice), explen |-> Len(exp), gotlen |-> Len(E.slice)]

Accept(expData, expGhost, isAppend) ==
  /\ Judge("C13", E.panic = FALSE, Info("unexpected_panic", expData))
  /\ Judge("C13", E.slice = expData, Info("contents", expData))
  /\ Judge("C13", E.slice = FixCk(expGhost), Info("contents_vs_plain_vector", FixCk(expGhost)))
  /\ Judge("C13", E.len = Len(E.slice) /\ (Has(E, "is_empty") => E.is_empty = (Len(E.slice) = 0)), Info("len", expData))
  /\ Judge("C13", Len(E.slice) < 10 \/ Sum8(E.slice) = 0, Info("checksum", expData))
  \* the generic table is one of the checksummed structures of C01; its Length field is C02's after appends
  /\ Judge("C01", Len(E.slice) < 10 \/ Sum8(E.slice) = 0, Info("checksum", expData))
  /\ Judge("C02", isAppend => (Len(E.slice) >= 8 /\ LengthFieldAfterAppend(E.slice)), Info("length_field_after_append", expData))
  /\ Judge("C13", isAppend => (Len(E.slice) >= 8 /\ LengthFieldAfterAppend(E.slice)), Info("length_field_after_append", expData))
  /\ Judge("C13", (E.last /\ Has(E, "ser")) => E.ser = E.slice, Info("serialised_form", expData))
  /\ data' = E.slice
  /\ ghost' = IF E.slice = expData THEN expGhost ELSE E.slice

Refuse ==
  /\ Judge("C13", E.panic = TRUE, Info("oversize_write_not_refused", data))
  /\ Judge("C13", E.slice = data, Info("refused_write_changed_table", data))
  /\ data' = E.slice /\ ghost' = IF E.slice = data THEN ghost ELSE E.slice

TNew ==
  /\ E.ev = "new"
  /\ LET h == Header36(E.hdr.sig, LE(E.n, 4), E.hdr.rev, E.hdr.oem_id, E.hdr.oem_table, E.hdr.oem_rev,
                       E.hdr.creator_id, E.hdr.creator_rev)
     IN IF E.n < 36
        THEN /\ Judge("C13", E.panic = TRUE, [l |-> l, run |-> E.run, ev |-> E.ev, what |-> "short_table_not_refused",
                                                sig |-> "sdt/new/short_table_not_refused"])
             /\ data' = <<>> /\ ghost' = <<>>
        ELSE Accept(FixCk(NewData(h, E.n)), NewData(h, E.n), TRUE)

TAppend == E.ev \in {"append", "append_slice"} /\ Accept(FixCk(GrowPlain(data, E.v)), GrowPlain(ghost, E.v), TRUE)
\* pushing NO bytes through the sink: the property leaves open whether that counts as an append (Length and checksum
\* rewritten, like an empty slice append) or as nothing at all -- both are accepted
TSink == E.ev \in {"sink", "sink_vec"}
         /\ IF Len(E.v) = 0 /\ E.slice = FixCk(GrowPlain(data, <<>>))
            THEN Accept(FixCk(GrowPlain(data, <<>>)), GrowPlain(ghost, <<>>), FALSE)
            ELSE Accept(SinkNext(data, E.v), FoldLeft(LAMBDA acc, b : GrowPlain(acc, <<b>>), ghost, E.v), Len(E.v) > 0)
TWrite == /\ E.ev \in {"write", "write_bytes"}
          /\ IF Has(E, "off_huge") \/ ~Fits(data, E.off, E.v) THEN Refuse
             ELSE Accept(FixCk(Patch(data, E.off, E.v)), Patch(ghost, E.off, E.v), FALSE)
TFix == E.ev = "update_checksum" /\ Accept(FixCk(data), ghost, FALSE)

\* a table grown by very long uniform slices (tens to hundreds of MiB): the contents are not logged; what C13 says of
\* them that can be read off generic observations: the length grew by the slice, Length field = length, sum = 0, the
\* header is otherwise untouched and the appended bytes are the slice
TBig ==
  /\ E.ev = "big"
  /\ UNCHANGED <<data, ghost>>
  /\ LET I(what) == [l |-> l, run |-> E.run, ev |-> E.ev, what |-> what, sig |-> "sdt/big_" \o E.via \o "/" \o what, n |-> E.n, len |-> E.len] IN
     /\ Judge("C13", ~E.panic, I("unexpected_panic"))
     /\ Judge("C13", E.len = E.expect_len /\ E.lenfn = E.len, I("len"))
     /\ Judge("C13", Len(E.head) = 36 /\ Slice(E.head, 4, 4) = LE(E.len, 4), I("length_field_after_append"))
     /\ Judge("C02", Len(E.head) = 36 /\ Slice(E.head, 4, 4) = LE(E.len, 4), I("length_field_after_append"))
     /\ Judge("C13", E.sum8 = 0, I("checksum"))
     /\ Judge("C01", E.sum8 = 0, I("checksum"))
     /\ Judge("C13", E.tail_is_fill /\ Len(E.head) = 36 /\ Slice(E.head, 0, 4) = <<66, 73, 71, 95>> /\ Slice(E.head, 10, 6) = <<1, 2, 3, 4, 5, 6>>, I("contents"))

TNext == l <= NRec /\ l' = l + 1 /\ (TNew \/ TAppend \/ TSink \/ TWrite \/ TFix \/ TBig)
TSpec == TInit /\ [][TNext]_tvars
Done == DoneMsg(l)
=============================================================================
