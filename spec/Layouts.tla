------------------------------ MODULE Layouts ------------------------------
(***************************************************************************)
(* Reference encodings of every ACPI structure the crate can build,        *)
(* transcribed from the governing specifications (ACPI 6.5 ch. 5 and 18,   *)
(* CXL 3.0 9.17.1, TCG ACPI spec, SPCR rev 4, RISC-V RHCT/RIMT/RQSC,       *)
(* VIOT), independent of the crate's own layout code and len() helpers.    *)
(*                                                                         *)
(* Every structure X is a small state machine in its own right:            *)
(*   X_Init(a, R)      state after the constructor (a = caller arguments)  *)
(*   X_Call(s, c, R)   state after builder call c = [o |-> name, a |-> ..] *)
(*   X_Lay(s)          the layout: a sequence of named byte chunks         *)
(* The state s maps field names to byte strings (scalars are little-endian *)
(* byte strings of the API width, see Bytes.tla) and flag fields to sets   *)
(* of bit numbers.  R maps earlier operations of the same table to the     *)
(* handle value they returned (for reference fields).                      *)
(* Naming chunks lets the judges talk about fields: C04 compares whole     *)
(* images, C11 compares flag chunks and frames, C05 reads reference        *)
(* chunks, C12 reads matrix chunks.                                        *)
(***************************************************************************)
EXTENDS Bytes

N(name, bytes) == [n |-> name, b |-> bytes]
K(bytes) == [n |-> "", b |-> bytes]                 \* constant / reserved chunk
Z(n) == Zeros(n)
LayBytes(lay) == FoldLeft(LAMBDA acc, c : acc \o c.b, <<>>, lay)
LayLen(lay) == FoldLeft(LAMBDA acc, c : acc + Len(c.b), 0, lay)
\* 0-based offset of chunk number i
ChunkOff(lay, i) == LayLen(SubSeq(lay, 1, i - 1))
\* byte positions (0-based) of all chunks whose name is in names
ChunkRange(lay, names) ==
  UNION {{ChunkOff(lay, i) + k : k \in 0..(Len(lay[i].b) - 1)} : i \in {j \in 1..Len(lay) : lay[j].n \in names}}
ChunkNames(lay) == {lay[i].n : i \in 1..Len(lay)} \ {""}
ChunkOf(lay, name) == lay[CHOOSE i \in 1..Len(lay) : lay[i].n = name]
FoldCalls(Call(_, _), s0, calls) == FoldLeft(Call, s0, calls)
Bool(b) == IF b THEN 1 ELSE 0

---------------------------------------------------------------------------
(* Generic Address Structure (ACPI 5.2.3.2), 12 bytes                      *)
SpaceCode == [SystemMemory |-> 0, SystemIo |-> 1, PciConfigSpace |-> 2, EmbeddedController |-> 3, Smbus |-> 4,
              SystemCmos |-> 5, PciBarTarget |-> 6, Ipmi |-> 7, GeneralPursposeIo |-> 8, GenericSerialBus |-> 9,
              PlatformCommunicationsChannel |-> 10, PlatformRuntimeMechanism |-> 11, FunctionalFixedHardware |-> 127]
AccessCode == [Undefined |-> 0, ByteAccess |-> 1, WordAccess |-> 2, DwordAccess |-> 3, QwordAccess |-> 4]
\* a GAS value comes from one of two public constructors: the general one, or the PCI-configuration-space one (device /
\* function / register; ACPI Table 5.1: address = register(2) function(2) device(2) 0(2), little-endian; offset 0)
GasBytes(g) == IF "device" \in DOMAIN g
               THEN <<2>> \o g.width \o <<0>> \o <<AccessCode[g.access]>> \o g.register \o W(g.function, 2) \o W(g.device, 2) \o <<0, 0>>
               ELSE <<SpaceCode[g.space]>> \o g.width \o g.offset \o <<AccessCode[g.access]>> \o g.addr
GasZero == Z(12)

\* PCI bus/device/function packing: bus[15:8] device[7:3] function[2:0]
Bdf(p) == <<Val(p.dev) * 8 + Val(p.fn)>> \o p.bus
PciOk(p) == Val(p.dev) < 32 /\ Val(p.fn) < 8

---------------------------------------------------------------------------
(* MADT interrupt controller structures (ACPI 5.2.12)                      *)

\* Local APIC flags / GICC flags / RINTC flags: bit0 enabled, online-capable bit
LapicFlags(st) == CASE st = "Enabled" -> {0} [] st = "Disabled" -> {} [] st = "DisabledOnlineCapable" -> {1}
Lapic_Init(a) == [uid |-> a.uid, apic_id |-> a.apic_id, flags |-> LapicFlags(a.status)]
Lapic_Lay(s) == <<K(<<0, 8>>), N("uid", s.uid), N("apic_id", s.apic_id), N("flags", BitsLE(s.flags, 4))>>

Ioapic_Init(a) == [id |-> a.id, addr |-> a.addr, gsi_base |-> a.gsi_base]
Ioapic_Lay(s) == <<K(<<1, 12>>), N("id", s.id), K(Z(1)), N("addr", s.addr), N("gsi_base", s.gsi_base)>>

GiccStatusFlags(st) == CASE st = "Enabled" -> {0} [] st = "Disabled" -> {} [] st = "DisabledOnlineCapable" -> {3}
Gicc_Init(a) == [flags |-> GiccStatusFlags(a.status), cpu_interface_number |-> Z(4), acpi_processor_uid |-> Z(4),
                 parking_protocol_version |-> Z(4), performance_interrupt |-> Z(4), parked_address |-> Z(8),
                 base_address |-> Z(8), virtual_registers |-> Z(8), control_block_registers |-> Z(8),
                 maintenance_interrupt |-> Z(4), redistributor_base |-> Z(8), mpidr |-> Z(8),
                 power_efficiency_class |-> Z(1), overflow_interrupt |-> Z(2), trbe_interrupt |-> Z(2)]
Gicc_Call(s, c) ==
  CASE c.o = "performance_interrupt" ->
         [s EXCEPT !.performance_interrupt = c.a.gsi, !.flags = @ \cup (IF c.a.trigger = "Edge" THEN {1} ELSE {})]
    [] c.o = "maintenance_interrupt" ->
         [s EXCEPT !.maintenance_interrupt = c.a.gsi, !.flags = @ \cup (IF c.a.trigger = "Edge" THEN {2} ELSE {})]
    [] OTHER -> [s EXCEPT ![c.o] = c.a.v]          \* plain setters: the call name is the field name
Gicc_Lay(s) == <<K(<<11, 82>>), K(Z(2)), N("cpu_interface_number", s.cpu_interface_number),
                 N("acpi_processor_uid", s.acpi_processor_uid), N("flags", BitsLE(s.flags, 4)),
                 N("parking_protocol_version", s.parking_protocol_version),
                 N("performance_interrupt", s.performance_interrupt), N("parked_address", s.parked_address),
                 N("base_address", s.base_address), N("virtual_registers", s.virtual_registers),
                 N("control_block_registers", s.control_block_registers),
                 N("maintenance_interrupt", s.maintenance_interrupt), N("redistributor_base", s.redistributor_base),
                 N("mpidr", s.mpidr), N("power_efficiency_class", s.power_efficiency_class), K(Z(1)),
                 N("overflow_interrupt", s.overflow_interrupt), N("trbe_interrupt", s.trbe_interrupt)>>

GicVersionCode == [Unspecified |-> 0, GICv1 |-> 1, GICv2 |-> 2, GICv3 |-> 3, GICv4 |-> 4]
Gicd_Init(a) == [id |-> a.id, base |-> a.base, version |-> <<GicVersionCode[a.version]>>]
Gicd_Lay(s) == <<K(<<12, 24>>), K(Z(2)), N("id", s.id), N("base", s.base), K(Z(4)), N("version", s.version), K(Z(3))>>

\* GIC MSI frame: flags bit 0 = SPI Count/Base Select: 1 = the SPI count and base fields override the
\* hardware registers, i.e. set exactly when the caller supplied them (ACPI Table 5.41)
Gicmsi_Init(a) == [gic_msi_frame_id |-> Z(4), base_addr |-> Z(8), flags |-> {}, spi_count |-> Z(2), spi_base |-> Z(2)]
Gicmsi_Call(s, c) ==
  CASE c.o = "spi_count_and_base" -> [s EXCEPT !.spi_count = c.a.count, !.spi_base = c.a.base, !.flags = @ \cup {0}]
    [] OTHER -> [s EXCEPT ![c.o] = c.a.v]
Gicmsi_Lay(s) == <<K(<<13, 24>>), K(Z(2)), N("gic_msi_frame_id", s.gic_msi_frame_id), N("base_addr", s.base_addr),
                   N("flags", BitsLE(s.flags, 4)), N("spi_count", s.spi_count), N("spi_base", s.spi_base)>>

Gicr_Init(a) == [base |-> a.base, length |-> a.length]
Gicr_Lay(s) == <<K(<<14, 16>>), K(Z(2)), N("base", s.base), N("length", s.length)>>

Gicits_Init(a) == [id |-> a.id, base |-> a.base]
Gicits_Lay(s) == <<K(<<15, 20>>), K(Z(2)), N("id", s.id), N("base", s.base), K(Z(4))>>

HartFlags(st) == CASE st = "Enabled" -> {0} [] st = "Disabled" -> {} [] st = "OnlineCapable" -> {1}
Rintc_Init(a) == [flags |-> HartFlags(a.status), hart |-> a.hart, uid |-> a.uid, ext_id |-> a.ext_id,
                  imsic_base |-> a.imsic_base, imsic_size |-> a.imsic_size]
Rintc_Lay(s) == <<K(<<24, 36>>), K(<<1>>), K(Z(1)), N("flags", BitsLE(s.flags, 4)), N("hart", s.hart), N("uid", s.uid),
                  N("ext_id", s.ext_id), N("imsic_base", s.imsic_base), N("imsic_size", s.imsic_size)>>

Imsic_Init(a) == [s_ids |-> a.s_ids, g_ids |-> a.g_ids, guest_bits |-> a.guest_bits, hart_bits |-> a.hart_bits,
                  group_bits |-> a.group_bits, group_shift |-> a.group_shift]
Imsic_Lay(s) == <<K(<<25, 16>>), K(<<1>>), K(Z(1)), K(Z(4)), N("s_ids", s.s_ids), N("g_ids", s.g_ids),
                  N("guest_bits", s.guest_bits), N("hart_bits", s.hart_bits), N("group_bits", s.group_bits),
                  N("group_shift", s.group_shift)>>

Aplic_Init(a) == [id |-> a.id, hw_id |-> a.hw_id, idcs |-> a.idcs, srcs |-> a.srcs, gsi_base |-> a.gsi_base,
                  addr |-> a.addr, size |-> a.size]
Aplic_Lay(s) == <<K(<<26, 36>>), K(<<1>>), N("id", s.id), K(Z(4)), N("hw_id", s.hw_id), N("idcs", s.idcs),
                  N("srcs", s.srcs), N("gsi_base", s.gsi_base), N("addr", s.addr), N("size", s.size)>>

Plic_Init(a) == [id |-> a.id, hw_id |-> a.hw_id, srcs |-> a.srcs, max_prio |-> a.max_prio, size |-> a.size,
                 addr |-> a.addr, gsi_base |-> a.gsi_base]
Plic_Lay(s) == <<K(<<27, 36>>), K(<<1>>), N("id", s.id), N("hw_id", s.hw_id), N("srcs", s.srcs),
                 N("max_prio", s.max_prio), K(Z(4)), N("size", s.size), N("addr", s.addr), N("gsi_base", s.gsi_base)>>

---------------------------------------------------------------------------
(* SRAT affinity structures (ACPI 5.2.16)                                  *)
MemAff_Init(a) == [pxm |-> a.pxm, base |-> a.base, length |-> a.length, flags |-> {}]
MemAff_Call(s, c) == [s EXCEPT !.flags = @ \cup (CASE c.o = "enabled" -> {0} [] c.o = "hotpluggable" -> {1}
                                                   [] c.o = "nonvolatile" -> {2})]
MemAff_Lay(s) == <<K(<<1, 40>>), N("pxm", s.pxm), K(Z(2)), N("base", s.base), N("length", s.length), K(Z(4)),
                   N("flags", BitsLE(s.flags, 4)), K(Z(8))>>

\* Generic Initiator: device handle is 16 bytes; ACPI: HID(8) UID(4) reserved(4); PCI: segment(2) BDF(2) reserved(12)
\* (byte 2 = bus, byte 3 = device[7:3] function[2:0], ACPI Table 5.61)
GiHandle(h) == IF h.t = "acpi" THEN h.hid \o h.uid \o Z(4) ELSE h.seg \o h.bus \o <<Val(h.dev) * 8 + Val(h.fn)>> \o Z(12)
GenInit_Init(a) == [pxm |-> a.pxm, handle |-> a.handle, flags |-> {}]
GenInit_Call(s, c) == [s EXCEPT !.flags = @ \cup (CASE c.o = "enabled" -> {0} [] c.o = "architectural" -> {1})]
GenInit_Lay(s) == <<K(<<5, 32>>), K(Z(1)), N("handle_type", <<IF s.handle.t = "acpi" THEN 0 ELSE 1>>),
                    N("pxm", s.pxm), N("handle", GiHandle(s.handle)), N("flags", BitsLE(s.flags, 4)), K(Z(4))>>

\* RINTC affinity (ACPI 6.6 / RISC-V ECR): type 7, length 20: reserved(2) proximity domain(4) uid(4) flags(4) clock(4)
RintcAff_Init(a) == [pxm |-> IF "pxm" \in DOMAIN a THEN a.pxm ELSE Z(4), uid |-> a.uid, clock |-> a.clock, flags |-> {}]
RintcAff_Call(s, c) == CASE c.o = "enabled" -> [s EXCEPT !.flags = @ \cup {0}]
                         [] c.o = "proximity_domain" -> [s EXCEPT !.pxm = c.a.v]
RintcAff_Lay(s) == <<K(<<7, 20>>), K(Z(2)), N("pxm", s.pxm), N("uid", s.uid), N("flags", BitsLE(s.flags, 4)),
                     N("clock", s.clock)>>

---------------------------------------------------------------------------
(* HMAT structures (ACPI 5.2.28)                                           *)
Mpda_Init(a) == [init |-> a.init, mem |-> a.mem]
Mpda_Lay(s) == <<K(<<0, 0>>), K(Z(2)), K(LE(40, 4)), N("flags", <<1, 0>>), K(Z(2)), N("init", s.init), N("mem", s.mem), K(Z(20))>>

LocTypeCode == [Memory |-> 0, FirstLevelCache |-> 1, SecondLevelCache |-> 2, ThirdLevelCache |-> 3]
DataTypeCode == [AccessLatency |-> 0, ReadLatency |-> 1, WriteLatency |-> 2, AccessBandwidth |-> 3,
                 ReadBandwidth |-> 4, WriteBandwidth |-> 5]
MtsCode == [SizeByteAligned |-> 0, Size64b |-> 1, Size128b |-> 2, Size256b |-> 3, Size512b |-> 4, Size1k |-> 5,
            Size2k |-> 6, Size4k |-> 7, Size8k |-> 8, Size16k |-> 9, Size32k |-> 10, Size64k |-> 11]
\* cells: function (i, j) -> 2-byte value; default 0xFFFF; row-major projection with stride = number of targets
Sllbi_Init(a) == [hier |-> LocTypeCode[a.loc], flags |-> {}, dtype |-> DataTypeCode[a.dtype], mts |-> MtsCode[a.mts],
                  base_unit |-> a.base_unit, ni |-> a.ni, nt |-> a.nt,
                  inits |-> [i \in 1..a.ni |-> Z(4)], tgts |-> [j \in 1..a.nt |-> Z(4)],
                  cells |-> [p \in (0..(a.ni - 1)) \X (0..(a.nt - 1)) |-> <<255, 255>>]]
Sllbi_Call(s, c) ==
  CASE c.o = "non_sequential_transfers" -> [s EXCEPT !.flags = @ \cup {5}]
    [] c.o = "minimum_transfer_size_required" -> [s EXCEPT !.flags = @ \cup {4}]
    [] c.o = "set_initiator_value" -> [s EXCEPT !.inits[c.a.idx + 1] = c.a.v]
    [] c.o = "set_target_value" -> [s EXCEPT !.tgts[c.a.idx + 1] = c.a.v]
    [] c.o = "set_entry_value" -> [s EXCEPT !.cells[<<c.a.i, c.a.j>>] = c.a.v]
SllbiMatrix(s) == FlatW([k \in 1..(s.ni * s.nt) |-> s.cells[<<(k - 1) \div s.nt, (k - 1) % s.nt>>]], 2)
Sllbi_Lay(s) == <<K(<<1, 0>>), K(Z(2)), N("length", LE(32 + 4 * s.ni + 4 * s.nt + 2 * s.ni * s.nt, 4)),
                  N("flags", <<s.hier + Val(BitsLE(s.flags, 1))>>), N("dtype", <<s.dtype>>), N("mts", <<s.mts>>), K(Z(1)),
                  N("ni", LE(s.ni, 4)), N("nt", LE(s.nt, 4)), K(Z(4)), N("base_unit", s.base_unit),
                  N("inits", FlatW(s.inits, 4)), N("tgts", FlatW(s.tgts, 4)), N("matrix", SllbiMatrix(s))>>

LevelCode == [None |-> 0, One |-> 1, Two |-> 2, Three |-> 3]
AssocCode == [None |-> 0, DirectMapped |-> 1, Complex |-> 2]
PolicyCode == [None |-> 0, Writeback |-> 1, Writethrough |-> 2]
Msci_Init(a) == [pxm |-> a.pxm, size |-> a.size,
                 attr01 |-> <<LevelCode[a.total] + 16 * LevelCode[a.this], AssocCode[a.assoc] + 16 * PolicyCode[a.policy]>>,
                 line |-> a.line, handles |-> <<>>]
Msci_Call(s, c) == [s EXCEPT !.handles = Append(@, c.a.v)]       \* add_smbios_handle
Msci_Lay(s) == <<K(<<2, 0>>), K(Z(2)), N("length", LE(32 + 2 * Len(s.handles), 4)), N("pxm", s.pxm), K(Z(4)),
                 N("size", s.size), N("attrs", s.attr01 \o s.line), K(Z(2)), N("nhandles", LE(Len(s.handles), 2)),
                 N("handles", FlatW(s.handles, 2))>>

---------------------------------------------------------------------------
(* PPTT nodes (ACPI 5.2.30); R = handle values returned by earlier adds    *)
Ref(R, i) == IF i = 0 THEN Z(4) ELSE R[i]
Proc_Init(a, R) == [flags |-> {}, parent |-> Ref(R, a.parent), id |-> a.id, res |-> <<>>]
Proc_Call(s, c, R) ==
  CASE c.o = "add_cache" -> [s EXCEPT !.res = Append(@, Ref(R, c.a.ref))]
    \* the three public fields can also be assigned directly
    [] c.o = "set_flags" -> [s EXCEPT !.flags = BitSet(c.a.v)]
    [] c.o = "set_parent" -> [s EXCEPT !.parent = c.a.v]
    [] c.o = "set_id" -> [s EXCEPT !.id = c.a.v]
    [] OTHER -> [s EXCEPT !.flags = @ \cup (CASE c.o = "physical" -> {0} [] c.o = "valid" -> {1} [] c.o = "thread" -> {2}
                                              [] c.o = "leaf" -> {3} [] c.o = "identical" -> {4})]
Proc_Lay(s) == <<K(<<0>>), N("length", <<20 + 4 * Len(s.res)>>), K(Z(2)), N("flags", BitsLE(s.flags, 4)),
                 N("parent", s.parent), N("id", s.id), N("nres", LE(Len(s.res), 4)), N("res", FlatW(s.res, 4))>>

\* cache attributes: allocation type bits 1:0 (0 read, 1 write, 2 read+write), cache type bits 3:2 (0 data,
\* 1 instruction, 2 unified), write policy bit 4 (0 write-back, 1 write-through); the attribute byte is the
\* union (bitwise or) of what the invoked options contribute
AllocBits == [Read |-> {}, Write |-> {0}, Both |-> {1}]
CTypeBits == [Data |-> {}, Instruction |-> {2}, Unified |-> {3}]
WPolBits == [Writeback |-> {}, Writethrough |-> {4}]
Cache_Init(a, R) == [flags |-> {}, next |-> Z(4), size |-> Z(4), sets |-> Z(4), assoc |-> Z(1), attrs |-> {},
                     line |-> Z(2), id |-> Z(4)]
Cache_Call(s, c, R) ==
  CASE c.o = "next_level" -> [s EXCEPT !.next = Ref(R, c.a.ref)]
    [] c.o = "size" -> [s EXCEPT !.size = c.a.v, !.flags = @ \cup {0}]
    [] c.o = "sets" -> [s EXCEPT !.sets = c.a.v, !.flags = @ \cup {1}]
    [] c.o = "associativity" -> [s EXCEPT !.assoc = c.a.v, !.flags = @ \cup {2}]
    [] c.o = "allocation_type" -> [s EXCEPT !.attrs = @ \cup AllocBits[c.a.v], !.flags = @ \cup {3}]
    [] c.o = "cache_type" -> [s EXCEPT !.attrs = @ \cup CTypeBits[c.a.v], !.flags = @ \cup {4}]
    [] c.o = "write_policy" -> [s EXCEPT !.attrs = @ \cup WPolBits[c.a.v], !.flags = @ \cup {5}]
    [] c.o = "line_size" -> [s EXCEPT !.line = c.a.v, !.flags = @ \cup {6}]
    [] c.o = "id" -> [s EXCEPT !.id = c.a.v, !.flags = @ \cup {7}]
Cache_Lay(s) == <<K(<<1, 28>>), K(Z(2)), N("flags", BitsLE(s.flags, 4)), N("next", s.next), N("size", s.size),
                  N("sets", s.sets), N("assoc", s.assoc), N("attrs", BitsLE(s.attrs, 1)), N("line", s.line), N("id", s.id)>>

---------------------------------------------------------------------------
(* RHCT nodes (RISC-V Hart Capabilities Table)                             *)
Isa_Init(a) == [str |-> a.str]
IsaLen(s) == LET n == 8 + Len(s.str) + 1 IN n + (n % 2)
Isa_Lay(s) == <<K(<<0, 0>>), N("length", LE(IsaLen(s), 2)), K(<<1, 0>>), N("strlen", LE(Len(s.str) + 1, 2)),
                N("str", s.str), K(Z(1)), K(Z(IsaLen(s) - (8 + Len(s.str) + 1)))>>
Cmo_Init(a) == [cbom |-> a.cbom, cbop |-> a.cbop, cboz |-> a.cboz]
Cmo_Lay(s) == <<K(<<1, 0>>), K(<<10, 0>>), K(<<1, 0>>), K(Z(1)), N("cbom", s.cbom), N("cbop", s.cbop), N("cboz", s.cboz)>>
MmuCode == [Sv39 |-> 0, Sv48 |-> 1, Sv57 |-> 2]
Mmu_Init(a) == [scheme |-> <<MmuCode[a.scheme]>>]
Mmu_Lay(s) == <<K(<<2, 0>>), K(<<8, 0>>), K(<<1, 0>>), K(Z(1)), N("scheme", s.scheme)>>
Hart_Init(a, R) == [uid |-> a.uid, offs |-> <<Ref(R, a.isa)>>]
Hart_Call(s, c, R) == [s EXCEPT !.offs = Append(@, Ref(R, c.a.ref))]          \* with_cmo
Hart_Lay(s) == <<K(<<255, 255>>), N("length", LE(12 + 4 * Len(s.offs), 2)), K(<<1, 0>>), N("noffs", LE(Len(s.offs), 2)),
                 N("uid", s.uid), N("offs", FlatW(s.offs, 4))>>

---------------------------------------------------------------------------
(* RIMT devices (layout pinned by the crate's golden vectors, DESIGN 5/C04) *)
WireBytes(w) == w.num \o <<Bool(w.level) + 2 * Bool(w.high), 0>> \o w.aplic
IdMapBytes(m, R) == m.src \o m.dst \o m.n \o Ref(R, m.iommu) \o <<Bool(m.ats) + 2 * Bool(m.pri) + 4 * Bool(m.rciep), 0, 0, 0>>
OptList(a, f) == IF f \in DOMAIN a THEN a[f] ELSE <<>>
Iommu_Init(a) == [id |-> a.id, base |-> IF "base" \in DOMAIN a THEN a.base ELSE Z(8),
                  flags |-> (IF "pci" \in DOMAIN a THEN {0} ELSE {}) \cup (IF "pxm" \in DOMAIN a THEN {1} ELSE {}),
                  seg |-> IF "pci" \in DOMAIN a THEN a.pci.seg ELSE Z(2),
                  bdf |-> IF "pci" \in DOMAIN a THEN Bdf(a.pci) ELSE Z(2),
                  pxm |-> IF "pxm" \in DOMAIN a THEN a.pxm ELSE Z(4),
                  wires |-> OptList(a, "wires")]
Iommu_Lay(s) == <<K(<<0, 1>>), N("length", LE(32 + 8 * Len(s.wires), 2)), N("id", s.id), K(Z(2)), N("base", s.base),
                  N("flags", BitsLE(s.flags, 4)), N("seg", s.seg), N("bdf", s.bdf), N("pxm", s.pxm),
                  N("nwires", LE(Len(s.wires), 2)), N("wire_off", <<32, 0>>),
                  N("wires", FlatW([i \in 1..Len(s.wires) |-> WireBytes(s.wires[i])], 8))>>
Rc_Init(a, R) == [id |-> a.id, seg |-> a.seg, flags |-> (IF a.ats THEN {0} ELSE {}) \cup (IF a.pri THEN {1} ELSE {}),
                  maps |-> OptList(a, "maps"), R |-> R]
Rc_Lay(s) == <<K(<<1, 1>>), N("length", LE(16 + 20 * Len(s.maps), 2)), N("id", s.id), N("seg", s.seg),
               N("flags", BitsLE(s.flags, 4)), N("map_off", <<16, 0>>), N("nmaps", LE(Len(s.maps), 2)),
               N("maps", FlatW([i \in 1..Len(s.maps) |-> IdMapBytes(s.maps[i], s.R)], 20))>>
Plat_Init(a, R) == [id |-> a.id, name |-> a.name, maps |-> OptList(a, "maps"), R |-> R]
Plat_Lay(s) == <<K(<<2, 1>>), N("length", LE(12 + Len(s.name) + 1 + 20 * Len(s.maps), 2)), N("id", s.id), K(Z(2)),
                 N("map_off", LE(12 + Len(s.name) + 1, 2)), N("nmaps", LE(Len(s.maps), 2)), N("name", s.name), K(Z(1)),
                 N("maps", FlatW([i \in 1..Len(s.maps) |-> IdMapBytes(s.maps[i], s.R)], 20))>>

---------------------------------------------------------------------------
(* VIOT nodes (ACPI 5.2.32).  PCI range: endpoint start pinned to the first BDF (producer's choice) *)
Ref2(R, i) == IF i = 0 THEN Z(2) ELSE SubSeq(R[i], 1, 2)
PciRange_Init(a, R) == [first |-> a.first, last |-> a.last, out |-> Ref2(R, a.ref)]
PciRange_Lay(s) == <<K(<<1, 0>>), K(<<24, 0>>), N("ep_start", Bdf(s.first) \o Z(2)), N("seg_start", s.first.seg),
                     N("seg_end", s.last.seg), N("bdf_start", Bdf(s.first)), N("bdf_end", Bdf(s.last)),
                     N("out", s.out), K(Z(6))>>
MmioEp_Init(a, R) == [ep |-> a.ep, base |-> a.base, out |-> Ref2(R, a.ref)]
MmioEp_Lay(s) == <<K(<<2, 0>>), K(<<24, 0>>), N("ep", s.ep), N("base", s.base), N("out", s.out), K(Z(6))>>
VPciIommu_Init(a) == [pci |-> a.pci]
VPciIommu_Lay(s) == <<K(<<3, 0>>), K(<<16, 0>>), N("seg", s.pci.seg), N("bdf", Bdf(s.pci)), K(Z(8))>>
VMmioIommu_Init(a) == [base |-> a.base]
VMmioIommu_Lay(s) == <<K(<<4, 0>>), K(<<16, 0>>), K(Z(4)), N("base", s.base)>>

---------------------------------------------------------------------------
(* CEDT records (CXL 3.0 9.17.1): every record starts type(1) reserved(1) record length(2) *)
CxlVerCode == [Cxl1_1 |-> 0, Cxl2 |-> 1]
\* register block length: 8 KiB for a CXL 1.1 RCRB, 64 KiB for CXL 2.0 component registers
CxlVerLen == [Cxl1_1 |-> <<0, 32, 0, 0, 0, 0, 0, 0>>, Cxl2 |-> <<0, 0, 1, 0, 0, 0, 0, 0>>]
Chbs_Init(a) == [uid |-> a.uid, version |-> a.version, base |-> a.base]
Chbs_Lay(s) == <<K(<<0, 0>>), N("length", <<32, 0>>), N("uid", s.uid), N("version", LE(CxlVerCode[s.version], 4)), K(Z(4)),
                 N("base", s.base), N("len", CxlVerLen[s.version])>>
ArithCode == [Modulo |-> 0, ModuloXor |-> 1]
GranCode == [Granularity256b |-> 0, Granularity512b |-> 1, Granularity1kb |-> 2, Granularity2kb |-> 3,
             Granularity4kb |-> 4, Granularity8kb |-> 5, Granularity16kb |-> 6]
WaysCode == [Ways1 |-> 0, Ways2 |-> 1, Ways4 |-> 2, Ways8 |-> 3, Ways16 |-> 4, Ways3 |-> 8, Ways6 |-> 9, Ways12 |-> 10]
WaysNum == [Ways1 |-> 1, Ways2 |-> 2, Ways4 |-> 4, Ways8 |-> 8, Ways16 |-> 16, Ways3 |-> 3, Ways6 |-> 6, Ways12 |-> 12]
Cfmws_Init(a) == [base |-> a.base, size |-> a.size, arith |-> ArithCode[a.arith], gran |-> GranCode[a.gran],
                  ways |-> a.ways, restr |-> {}, qtg |-> a.qtg,
                  targets |-> IF "targets" \in DOMAIN a THEN a.targets ELSE <<>>]
Cfmws_Call(s, c) ==
  CASE c.o = "add_target" -> [s EXCEPT !.targets = Append(@, c.a.v)]
    [] OTHER -> [s EXCEPT !.restr = @ \cup (CASE c.o = "cxl_type_2_memory" -> {0} [] c.o = "cxl_type_3_memory" -> {1}
                                              [] c.o = "volatile" -> {2} [] c.o = "persistent" -> {3}
                                              [] c.o = "fixed_configuration" -> {4})]
Cfmws_Lay(s) == <<K(<<1, 0>>), N("length", LE(36 + 4 * Len(s.targets), 2)), K(Z(4)), N("base", s.base), N("size", s.size),
                  N("eniw", <<WaysCode[s.ways]>>), N("arith", <<s.arith>>), K(Z(2)), N("hbig", LE(s.gran, 4)),
                  N("restr", BitsLE(s.restr, 2)), N("qtg", s.qtg), N("targets", FlatW(s.targets, 4))>>
Cxims_Init(a) == [gran |-> GranCode[a.gran], maps |-> <<>>]
Cxims_Call(s, c) == [s EXCEPT !.maps = Append(@, c.a.v)]       \* add_xormap
Cxims_Lay(s) == <<K(<<2, 0>>), N("length", LE(8 + 8 * Len(s.maps), 2)), K(Z(2)), N("hbig", <<s.gran>>),
                  N("nib", <<Len(s.maps) % 256>>), N("maps", FlatW(s.maps, 8))>>
ProtoCode == [CxlIo |-> 0, CxlMem |-> 1]
\* RDPAS: type, reserved, record length, RCEC segment, RCEC BDF, protocol type (1), base address (8): 17 bytes of fields
Rdpas_Init(a) == [seg |-> a.seg, pci |-> a, proto |-> ProtoCode[a.proto], base |-> a.base]
Rdpas_Lay(s) == <<K(<<3, 0>>), N("length", <<17, 0>>), N("seg", s.seg), N("bdf", Bdf(s.pci)), N("proto", <<s.proto>>),
                  N("base", s.base)>>

---------------------------------------------------------------------------
(* HEST error sources (ACPI 18.3.2)                                        *)
\* PCIe AER common part (44 bytes): type, source id, reserved, flags, enabled, records, sections, bus, device,
\* function, device control, reserved, uncorrectable mask/severity, correctable mask, AER capabilities & control
AerCommon_Init(a) ==
  [flags |-> IF a.ctor = "global" THEN {1} ELSE (IF a.ff = "Enabled" THEN {0} ELSE {}),
   bus |-> IF a.ctor = "global" THEN Z(4) ELSE W(a.pci.bus, 4),
   dev |-> IF a.ctor = "global" THEN Z(2) ELSE W(a.pci.dev, 2),
   fn |-> IF a.ctor = "global" THEN Z(2) ELSE W(a.pci.fn, 2),
   num_records |-> Z(4), max_sections |-> Z(4), device_control |-> Z(2), uncorrectable_error_mask |-> Z(4),
   uncorrectable_error_severity |-> Z(4), correctable_error_mask |-> Z(4), aer_cap_ctrl |-> Z(4),
   root_error_command |-> Z(4), secondary_uncorrectable_error_mask |-> Z(4),
   secondary_uncorrectable_error_severity |-> Z(4), secondary_aer_cap_ctrl |-> Z(4)]
Aer_Call(s, c) == [s EXCEPT ![c.o] = c.a.v]
AerCommon_Lay(t, s) == <<K(<<t, 0>>), N("source_id", Z(2)), K(Z(2)), N("flags", BitsLE(s.flags, 1)), N("enabled", Z(1)),
                         N("num_records", s.num_records), N("max_sections", s.max_sections), N("bus", s.bus),
                         N("dev", s.dev), N("fn", s.fn), N("device_control", s.device_control), K(Z(2)),
                         N("uncorrectable_error_mask", s.uncorrectable_error_mask),
                         N("uncorrectable_error_severity", s.uncorrectable_error_severity),
                         N("correctable_error_mask", s.correctable_error_mask), N("aer_cap_ctrl", s.aer_cap_ctrl)>>
AerRoot_Lay(s) == AerCommon_Lay(6, s) \o <<N("root_error_command", s.root_error_command)>>
AerDev_Lay(s) == AerCommon_Lay(7, s)
AerBridge_Lay(s) == AerCommon_Lay(8, s) \o
  <<N("secondary_uncorrectable_error_mask", s.secondary_uncorrectable_error_mask),
    N("secondary_uncorrectable_error_severity", s.secondary_uncorrectable_error_severity),
    N("secondary_aer_cap_ctrl", s.secondary_aer_cap_ctrl)>>

NotifCode == [Polled |-> 0, ExternalIrq |-> 1, LocalIrq |-> 2, Sci |-> 3, Nmi |-> 4, Cmci |-> 5, Mce |-> 6, GpioSignal |-> 7,
              Armv8Sea |-> 8, Armv8Sei |-> 9, ExternalGsiv |-> 10, SoftwareException |-> 11,
              RiscvSupervisorSoftwareEvent |-> 12, RiscvLowPriorityRasInterrupt |-> 13,
              RiscvHighPriorityRasInterrupt |-> 14, RiscvHardwareErrorException |-> 15]
\* hardware error notification structure (ACPI 18.3.2.9): 28 bytes, length byte = 28
Notif_Init(a) == [type |-> NotifCode[a.type], conf_write_en |-> Z(2), poll_interval_ms |-> Z(4), vector |-> Z(4),
                  polling_threshold_value |-> Z(4), polling_threshold_window_ms |-> Z(4),
                  error_threshold_value |-> Z(4), error_threshold_window_ms |-> Z(4)]
Notif_Call(s, c) == [s EXCEPT ![c.o] = c.a.v]
Notif_Lay(s) == <<N("type", <<s.type>>), N("length", <<28>>), N("conf_write_en", s.conf_write_en),
                  N("poll_interval_ms", s.poll_interval_ms), N("vector", s.vector),
                  N("polling_threshold_value", s.polling_threshold_value),
                  N("polling_threshold_window_ms", s.polling_threshold_window_ms),
                  N("error_threshold_value", s.error_threshold_value),
                  N("error_threshold_window_ms", s.error_threshold_window_ms)>>
NotifOf(n) == LayBytes(Notif_Lay(FoldLeft(Notif_Call, Notif_Init(n), n.calls)))
\* a generic hardware error source that was given no notification still carries a well-formed (polled) one
NotifDefault == LayBytes(Notif_Lay(Notif_Init([type |-> "Polled"])))

HestEnabledCode == [Disabled |-> 0, Enabled |-> 1]
Ghes_Init(a) == [source_id |-> a.source_id, enabled |-> HestEnabledCode[a.enabled], num_records |-> Z(4),
                 max_sections |-> Z(4), max_raw_length |-> Z(4), error_status_address |-> GasZero,
                 notification |-> NotifDefault, error_status_block_len |-> Z(4), read_ack_register |-> GasZero,
                 read_ack_preserve |-> Z(8), read_ack_write |-> Z(8)]
Ghes_Call(s, c) ==
  CASE c.o \in {"error_status_address", "read_ack_register"} -> [s EXCEPT ![c.o] = GasBytes(c.a.v)]
    [] c.o = "notification" -> [s EXCEPT !.notification = NotifOf(c.a.v)]
    [] OTHER -> [s EXCEPT ![c.o] = c.a.v]
Ghes_Common(t, s) == <<K(<<t, 0>>), N("source_id", s.source_id), N("related", <<255, 255>>), K(Z(1)),
                       N("enabled", <<s.enabled>>), N("num_records", s.num_records), N("max_sections", s.max_sections),
                       N("max_raw_length", s.max_raw_length), N("error_status_address", s.error_status_address),
                       N("notification", s.notification), N("error_status_block_len", s.error_status_block_len)>>
Ghes_Lay(s) == Ghes_Common(9, s)
GhesV2_Lay(s) == Ghes_Common(10, s) \o <<N("read_ack_register", s.read_ack_register),
                                         N("read_ack_preserve", s.read_ack_preserve), N("read_ack_write", s.read_ack_write)>>

\* Generic Error Data Entry (ACPI 18.3.2.7.1, revision 0x300): the section type is a 16-byte GUID.  The crate's
\* public field for it is a u16; the reference zero-extends what the caller can supply.
SeverityCode == [Recoverable |-> 0, Fatal |-> 1, Correctable |-> 2, None |-> 3]
GeData_Init(a) == [section_type |-> W(a.section_type, 16), severity |-> SeverityCode[a.severity], revision |-> a.revision,
                   validation |-> a.validation, flags |-> a.flags, error_data_length |-> a.error_data_length,
                   fru_id |-> a.fru_id, fru_text |-> a.fru_text, timestamp |-> a.timestamp, data |-> a.data]
GeData_Lay(s) == <<N("section_type", s.section_type), N("severity", LE(s.severity, 4)), N("revision", s.revision),
                   N("validation", s.validation), N("flags", s.flags), N("error_data_length", s.error_data_length),
                   N("fru_id", s.fru_id), N("fru_text", s.fru_text), N("timestamp", s.timestamp), N("data", s.data)>>

---------------------------------------------------------------------------
(* RQSC controllers and resources (RISC-V QoS)                             *)
CtlTypeCode == [Capacity |-> 0, Bandwidth |-> 1]
ResTypeCode == [Cache |-> 0, Memory |-> 1]
ResIdBytes(id) ==
  CASE id.t = "cache" -> <<0>> \o id.cache_id \o Z(4) \o Z(4)
    [] id.t = "mem" -> <<1>> \o id.pxm \o Z(4) \o Z(4) \o id.bw
    [] id.t = "acpi" -> <<2>> \o id.hid \o id.uid
    [] id.t = "pci" -> <<3>> \o id.bdf \o Z(4) \o Z(4)
    [] id.t = "vendor" -> id.idtype \o id.data
ResBytes(r) == LET idb == ResIdBytes(r.id)
               IN <<ResTypeCode[r.rtype], 0>> \o LE(7 + Len(idb), 2) \o r.flags \o Z(1) \o idb
Qos_Init(a) == [type |-> CtlTypeCode[a.type], reg |-> GasBytes(a.reg), rcid |-> a.rcid, mcid |-> a.mcid,
                flags |-> a.flags, res |-> <<>>]
Qos_Call(s, c) == [s EXCEPT !.res = Append(@, ResBytes(c.a.v))]         \* add_resource
Qos_Lay(s) == <<N("type", <<s.type>>), K(Z(1)), N("length", LE(28 + Len(Flat(s.res)), 2)),
                N("reg", s.reg), N("rcid", s.rcid), N("mcid", s.mcid), N("flags", s.flags),
                N("nres", LE(Len(s.res), 2)), N("res", Flat(s.res))>>

---------------------------------------------------------------------------
(* MCFG allocation / XSDT entry                                            *)
Ecam_Init(a) == [base |-> a.base, seg |-> a.seg, start |-> a.start, end |-> a.end]
Ecam_Lay(s) == <<N("base", s.base), N("seg", s.seg), N("start", s.start), N("end", s.end), K(Z(4))>>
Xent_Init(a) == [v |-> a.v]
Xent_Lay(s) == <<N("v", s.v)>>

---------------------------------------------------------------------------
(* dispatch by structure name                                              *)
HasCalls(e) == "calls" \in DOMAIN e
CallsOf(e) == IF HasCalls(e) THEN e.calls ELSE <<>>

SInit(st, a, R) ==
  CASE st = "lapic" -> Lapic_Init(a) [] st = "ioapic" -> Ioapic_Init(a) [] st = "gicc" -> Gicc_Init(a)
    [] st = "gicd" -> Gicd_Init(a) [] st = "gicmsi" -> Gicmsi_Init(a) [] st = "gicr" -> Gicr_Init(a)
    [] st = "gicits" -> Gicits_Init(a) [] st = "rintc" -> Rintc_Init(a) [] st = "imsic" -> Imsic_Init(a)
    [] st = "aplic" -> Aplic_Init(a) [] st = "plic" -> Plic_Init(a)
    [] st = "memaff" -> MemAff_Init(a) [] st = "geninit" -> GenInit_Init(a) [] st = "rintcaff" -> RintcAff_Init(a)
    [] st = "mpda" -> Mpda_Init(a) [] st = "sllbi" -> Sllbi_Init(a) [] st = "msci" -> Msci_Init(a)
    [] st = "proc" -> Proc_Init(a, R) [] st = "cache" -> Cache_Init(a, R)
    [] st = "isa" -> Isa_Init(a) [] st = "cmo" -> Cmo_Init(a) [] st = "mmu" -> Mmu_Init(a) [] st = "hart" -> Hart_Init(a, R)
    [] st = "iommu" -> Iommu_Init(a) [] st = "rc" -> Rc_Init(a, R) [] st = "plat" -> Plat_Init(a, R)
    [] st = "pcirange" -> PciRange_Init(a, R) [] st = "mmioep" -> MmioEp_Init(a, R)
    [] st = "vpciiommu" -> VPciIommu_Init(a) [] st = "vmmioiommu" -> VMmioIommu_Init(a)
    [] st = "chbs" -> Chbs_Init(a) [] st = "cfmws" -> Cfmws_Init(a) [] st = "cxims" -> Cxims_Init(a)
    [] st = "rdpas" -> Rdpas_Init(a)
    [] st \in {"aerroot", "aerdev", "aerbridge"} -> AerCommon_Init(a)
    [] st \in {"ghes", "ghesv2"} -> Ghes_Init(a) [] st = "notif" -> Notif_Init(a)
    [] st = "qos" -> Qos_Init(a) [] st = "ecam" -> Ecam_Init(a) [] st = "xent" -> Xent_Init(a)
    [] st = "gas" -> [g |-> a] [] st = "gedata" -> GeData_Init(a) [] st = "gestatus" -> a
    [] st = "gas_pci" -> a [] st = "gaddr" -> a

SCall(st, s, c, R) ==
  CASE st = "gicc" -> Gicc_Call(s, c) [] st = "gicmsi" -> Gicmsi_Call(s, c)
    [] st = "memaff" -> MemAff_Call(s, c) [] st = "geninit" -> GenInit_Call(s, c) [] st = "rintcaff" -> RintcAff_Call(s, c)
    [] st = "sllbi" -> Sllbi_Call(s, c) [] st = "msci" -> Msci_Call(s, c)
    [] st = "proc" -> Proc_Call(s, c, R) [] st = "cache" -> Cache_Call(s, c, R) [] st = "hart" -> Hart_Call(s, c, R)
    [] st = "cfmws" -> Cfmws_Call(s, c) [] st = "cxims" -> Cxims_Call(s, c)
    [] st \in {"aerroot", "aerdev", "aerbridge"} -> Aer_Call(s, c)
    [] st \in {"ghes", "ghesv2"} -> Ghes_Call(s, c) [] st = "notif" -> Notif_Call(s, c)
    [] st = "qos" -> Qos_Call(s, c)

SLay(st, s) ==
  CASE st = "lapic" -> Lapic_Lay(s) [] st = "ioapic" -> Ioapic_Lay(s) [] st = "gicc" -> Gicc_Lay(s)
    [] st = "gicd" -> Gicd_Lay(s) [] st = "gicmsi" -> Gicmsi_Lay(s) [] st = "gicr" -> Gicr_Lay(s)
    [] st = "gicits" -> Gicits_Lay(s) [] st = "rintc" -> Rintc_Lay(s) [] st = "imsic" -> Imsic_Lay(s)
    [] st = "aplic" -> Aplic_Lay(s) [] st = "plic" -> Plic_Lay(s)
    [] st = "memaff" -> MemAff_Lay(s) [] st = "geninit" -> GenInit_Lay(s) [] st = "rintcaff" -> RintcAff_Lay(s)
    [] st = "mpda" -> Mpda_Lay(s) [] st = "sllbi" -> Sllbi_Lay(s) [] st = "msci" -> Msci_Lay(s)
    [] st = "proc" -> Proc_Lay(s) [] st = "cache" -> Cache_Lay(s)
    [] st = "isa" -> Isa_Lay(s) [] st = "cmo" -> Cmo_Lay(s) [] st = "mmu" -> Mmu_Lay(s) [] st = "hart" -> Hart_Lay(s)
    [] st = "iommu" -> Iommu_Lay(s) [] st = "rc" -> Rc_Lay(s) [] st = "plat" -> Plat_Lay(s)
    [] st = "pcirange" -> PciRange_Lay(s) [] st = "mmioep" -> MmioEp_Lay(s)
    [] st = "vpciiommu" -> VPciIommu_Lay(s) [] st = "vmmioiommu" -> VMmioIommu_Lay(s)
    [] st = "chbs" -> Chbs_Lay(s) [] st = "cfmws" -> Cfmws_Lay(s) [] st = "cxims" -> Cxims_Lay(s)
    [] st = "rdpas" -> Rdpas_Lay(s)
    [] st = "aerroot" -> AerRoot_Lay(s) [] st = "aerdev" -> AerDev_Lay(s) [] st = "aerbridge" -> AerBridge_Lay(s)
    [] st = "ghes" -> Ghes_Lay(s) [] st = "ghesv2" -> GhesV2_Lay(s) [] st = "notif" -> Notif_Lay(s)
    [] st = "qos" -> Qos_Lay(s) [] st = "ecam" -> Ecam_Lay(s) [] st = "xent" -> Xent_Lay(s)
    [] st = "gedata" -> GeData_Lay(s)
    \* Generic Error Status Block (ACPI 18.3.2.7.1): block status, raw data offset / length, data length, severity.  The
    \* constructor takes error COUNTS; which status bits a count sets is the constructor's contract, pinned here as the
    \* crate documents it: one error -> the "valid" bit (1: correctable, 0: uncorrectable), more -> the "multiple" bit (3, 2)
    [] st = "gestatus" -> LET bit(c, one, many) == IF c = Z(4) THEN 0 ELSE IF c = One(4) THEN one ELSE many IN
                          <<N("status", LE(bit(s.cc, 2, 8) + bit(s.uc, 1, 4), 4)), N("raw_off", Z(4)), N("raw_len", Z(4)),
                            N("data_len", Z(4)), N("severity", LE(SeverityCode[s.severity], 4))>>
    \* GAS for PCI configuration space (ACPI Table 5.1): address = reserved word, device, function, register offset
    \* (highest to lowest word), i.e. little-endian: register(2) function(2) device(2) 0(2)
    [] st = "gas_pci" -> <<N("space", <<2>>), N("width", s.width), N("offset", <<0>>), N("access", <<AccessCode[s.access]>>),
                           N("register", s.register), N("function", W(s.function, 2)), N("device", W(s.device, 2)), K(Z(2))>>
    \* typed register addresses of the generic table module: system I/O (1) or memory (0), bit width = 8 * size,
    \* access size code 1/2/3/4 for 1/2/4/8 bytes
    [] st = "gaddr" -> <<N("space", <<IF s.kind = "io" THEN 1 ELSE 0>>), N("width", <<8 * s.size>>), N("offset", <<0>>),
                         N("access", <<CASE s.size = 1 -> 1 [] s.size = 2 -> 2 [] s.size = 4 -> 3 [] s.size = 8 -> 4>>),
                         N("addr", W(s.addr, 8))>>
    [] st = "gas" -> IF "device" \in DOMAIN s.g THEN <<N("gas_pci", GasBytes(s.g))>>
                     ELSE <<N("space", <<SpaceCode[s.g.space]>>), N("width", s.g.width), N("offset", s.g.offset),
                            N("access", <<AccessCode[s.g.access]>>), N("addr", s.g.addr)>>

\* state of structure st after its constructor and the first k builder calls
SStateK(st, e, R, k) == FoldLeft(LAMBDA s, c : SCall(st, s, c, R), SInit(st, e.a, R), SubSeq(CallsOf(e), 1, k))
SState(st, e, R) == SStateK(st, e, R, Len(CallsOf(e)))
SBytes(st, e, R) == LayBytes(SLay(st, SState(st, e, R)))
=============================================================================
