------------------------------ MODULE Trace_Pb ------------------------------
(* Implementation -> specification for the PackageBuilder state machine: one *)
(* event per add_element / direct sink push with the bytes the builder then  *)
(* serialises to.                                                            *)
EXTENDS PackageBuilder, AmlEnc, TraceCommon

VARIABLE l
tvars == <<data, elements, l>>
TInit == PbInit /\ l = 1
E == Rec[l]
I(what) == [l |-> l, run |-> E.run, what |-> what, op |-> E.ev, n |-> elements, sig |-> "pb/" \o E.ev \o "/" \o what]

Obs(d, n) == /\ Judge("C15", ~E.panic /\ E.bytes = PbImage(d, n), I("image"))
             /\ Judge("C14", E.ev = "pb_push" => (~E.panic /\ E.bytes = PbImage(d, n)), I("sink_push"))

TNew == E.ev = "pb_new" /\ data' = <<>> /\ elements' = 0 /\ Obs(<<>>, 0)
TAdd == /\ E.ev = "pb_add"
        /\ IF ~TreeFits(E.tree)
           THEN \* the element itself is refused (too many method arguments, package elements, name segments ...): the
                \* builder must be left as it was -- same payload, same element count
                /\ Judge("C18", E.add_panic, I("oversize_element_not_refused"))
                /\ Judge("C18", E.add_panic => (~E.ser_panic /\ E.bytes = PbImage(data, elements)), I("refused_element_changed_builder"))
                /\ UNCHANGED <<data, elements>>
           ELSE IF PbFits(elements + 1)
           THEN data' = data \o E.elem /\ elements' = elements + 1 /\ Obs(data', elements')   \* E.elem: the element serialised on its own
           ELSE \* the 256th element: the only behaviour allowed is refusal, at the add or at serialisation
                /\ Judge("C18", E.panic, I("oversize_not_refused"))
                /\ Judge("C15", E.panic, I("builder_accepts_what_the_package_refuses"))
                \* if the builder can still be serialised after the refusal, it is the builder as it was before
                /\ Judge("C18", (E.panic /\ ~E.ser_panic) => E.bytes = PbImage(data, elements), I("refused_element_changed_builder"))
                /\ UNCHANGED <<data, elements>>
TPush == E.ev = "pb_push" /\ data' = data \o E.d /\ UNCHANGED elements /\ Obs(data', elements)

TNext == l <= NRec /\ l' = l + 1 /\ (TNew \/ TAdd \/ TPush)
TSpec == TInit /\ [][TNext]_tvars
Done == DoneMsg(l)
=============================================================================
