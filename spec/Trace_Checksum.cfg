SPECIFICATION TSpec
CONSTANT RefMod = 16777216
INVARIANT Done
POSTCONDITION Accepted
CHECK_DEADLOCK FALSE
