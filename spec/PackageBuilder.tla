--------------------------- MODULE PackageBuilder ---------------------------
(***************************************************************************)
(* `aml::PackageBuilder` as a state machine: a package filled element by   *)
(* element, which is at the same time a sink.                              *)
(*    data       the bytes of the elements delivered so far                *)
(*    elements   how many elements were added with add_element             *)
(* AddElement(e) delivers the element's encoding through the sink entry    *)
(* points and counts it; bytes pushed directly through the sink interface  *)
(* extend the payload but are not counted.  The image is                   *)
(*    PackageOp PkgLength NumElements data                                 *)
(* and adding more than 255 elements is refused (C18).                     *)
(***************************************************************************)
EXTENDS AmlBase

VARIABLES data, elements
pbvars == <<data, elements>>
PbInit == data = <<>> /\ elements = 0
PbAddElement(e) == data' = data \o e /\ elements' = elements + 1
PbSink(s) == data' = data \o s /\ UNCHANGED elements
PbFits(n) == n <= 255
PbImage(d, n) == <<18>> \o PkgIncl(Len(d) + 1) \o <<n>> \o d
=============================================================================
