----------------------------- MODULE MC_Options -----------------------------
(* Bounded model of the option builders: for every option-bearing structure  *)
(* all sequences of its options (any order, repetitions) up to Depth.  TLC    *)
(* checks on the specification that flag fields are the union of individual   *)
(* contributions, that flag-only options commute and are idempotent, and that *)
(* distinct single options give distinct images; every leaf is printed as a   *)
(* REPLAY program (menu indices) for the harness.                             *)
EXTENDS Options, TLC, Json, IOUtils

CONSTANT Depth
MenuData == JsonDeserialize(IOEnv.MENU)
Structs == DOMAIN MenuData
VARIABLES st, path
vars == <<st, path>>

M(s) == MenuData[s]
EntryOf(s, p) == [a |-> M(s).a, calls |-> [i \in 1..Len(p) |-> M(s).calls[p[i]]]]
Init == \E s \in Structs : st = s /\ path = <<>>
Next == Len(path) < Depth /\ \E i \in 1..Len(M(st).calls) : path' = Append(path, i) /\ UNCHANGED st
Spec == Init /\ [][Next]_vars

Img(s, p) == LayBytes(LayK(s, EntryOf(s, p), M(s).R, Len(p)))
InvUnion == SpecUnion(st, EntryOf(st, path), M(st).R, Len(path))
\* the flag chunks do not depend on the order of the calls, nor on repeating the last call
FlagChunks(s, p) == LET lay == LayK(s, EntryOf(s, p), M(s).R, Len(p)) IN
                    {<<lay[i].n, lay[i].b>> : i \in {j \in 1..Len(lay) : lay[j].n \in FlagNames}}
InvOrder == Len(path) >= 2 => FlagChunks(st, path) = FlagChunks(st, Reverse(path))
InvIdem == Len(path) >= 1 => FlagChunks(st, path) = FlagChunks(st, Append(path, path[Len(path)]))
\* distinct options are distinguishable in the output
InvDistinct == Len(path) = 0 =>
   \A i, j \in 1..Len(M(st).calls) : (i # j /\ M(st).calls[i].o # M(st).calls[j].o) => Img(st, <<i>>) # Img(st, <<j>>)
EmitInv == Len(path) = Depth => PrintT("REPLAY " \o ToJson([st |-> st, path |-> path]))
=============================================================================
