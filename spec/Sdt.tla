-------------------------------- MODULE Sdt --------------------------------
(***************************************************************************)
(* The user-defined generic table (`Sdt` in src/sdt.rs) as a state machine *)
(* over its byte vector.                                                   *)
(*                                                                         *)
(*   data   the table's contents (what as_slice()/to_aml_bytes deliver)    *)
(*   ghost  a plain byte vector subjected to the same appends and writes,  *)
(*          with the Length field rewritten on every append but with NO    *)
(*          checksum maintenance; C13 says data = FixCk(ghost) always.     *)
(*                                                                         *)
(* One action per public mutator.  Typed appends are the composition the   *)
(* code performs (grow; rewrite Length; write value; each followed by a    *)
(* checksum fix) -- the intermediate states are not observable, so the     *)
(* action is their composition.  Sink entry points funnel into one-byte    *)
(* appends.  A write that would extend past the end is refused: no change. *)
(***************************************************************************)
EXTENDS Bytes

VARIABLES data, ghost
sdtvars == <<data, ghost>>

\* recompute the checksum byte (offset 9) so that the image sums to 0
FixCk(d) == LET z == Patch(d, 9, <<0>>) IN Patch(z, 9, <<Cksum(z)>>)

Header36(sig, lenB, rev, oemId, oemTable, oemRev, creatorId, creatorRev) ==
  sig \o lenB \o <<rev, 0>> \o oemId \o oemTable \o oemRev \o creatorId \o creatorRev

\* New: declared length n >= 36 (given as the 4 LE bytes lenB and the integer n)
NewData(h, n) == h \o Zeros(n - 36)
SdtNew(h, n) == /\ n >= 36
                /\ ghost' = NewData(h, n)
                /\ data' = FixCk(NewData(h, n))

\* plain-vector effect of an append of byte string v (typed or slice): grow, rewrite Length
GrowPlain(g, v) == Patch(g \o v, 4, LE(Len(g) + Len(v), 4))
SdtAppend(v) == /\ ghost' = GrowPlain(ghost, v)
                /\ data' = FixCk(GrowPlain(data, v))

\* the code path of the typed append, step by step (used to check the composition claim)
AppendBySteps(d, v) ==
  LET grown == d \o Zeros(Len(v))
      lenw == FixCk(Patch(grown, 4, LE(Len(grown), 4)))
  IN FixCk(Patch(lenw, Len(d), v))

Fits(d, off, v) == off + Len(v) <= Len(d)
SdtWrite(off, v) == /\ Fits(data, off, v)
                    /\ ghost' = Patch(ghost, off, v)
                    /\ data' = FixCk(Patch(data, off, v))
SdtWriteRefused(off, v) == ~Fits(data, off, v) /\ UNCHANGED sdtvars

\* sink entry points deliver bytes in order; each byte is a one-byte append
SinkNext(d, s) == FoldLeft(LAMBDA acc, b : FixCk(GrowPlain(acc, <<b>>)), d, s)
SdtSink(s) == /\ ghost' = FoldLeft(LAMBDA acc, b : GrowPlain(acc, <<b>>), ghost, s)
              /\ data' = SinkNext(data, s)

---------------------------------------------------------------------------
\* C13 as state predicates
Refines == data = FixCk(ghost)
SumsToZero == Sum8(data) = 0
SameLength == Len(data) = Len(ghost)
LengthFieldAfterAppend(d) == Slice(d, 4, 4) = LE(Len(d), 4)
=============================================================================
