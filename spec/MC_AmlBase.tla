----------------------------- MODULE MC_AmlBase -----------------------------
(* Specification-level theorems about the pure encoders of AmlBase.tla over   *)
(* a range Lo..Hi of values (IOEnv.LO / IOEnv.HI): every encoder is checked   *)
(* against its independently written decoder, so a transcription error in one *)
(* of them is caught before either is used to judge the crate.                *)
EXTENDS AmlBase, TLC, IOUtils

Lo == atoi(IOEnv.LO)
Hi == atoi(IOEnv.HI)
VARIABLE x
Spec == x = 0 /\ [][x' = x]_x

\* PkgLength, self-inclusive: decodes to content + own size, lead byte well formed, shortest that can include itself
InvPkgIncl == \A n \in Lo..Hi : InclFits(n) =>
  LET b == PkgIncl(n) d == PkgDec(b, 0) IN
  /\ d.ok /\ d.k = Len(b) /\ d.v = n + Len(b)
  /\ \A j \in 1..(Len(b) - 1) : n + j > PkgMax(j)
  /\ (Len(b) > 1 => (b[1] \div 16) % 4 = 0 /\ b[1] \div 64 = Len(b) - 1)
\* the integer-only transcription used for the symbolic (Apalache) proof agrees with PkgIncl
ApaK(m) == IF m + 1 <= 63 THEN 1 ELSE IF m + 2 <= 4095 THEN 2 ELSE IF m + 3 <= 1048575 THEN 3 ELSE 4
ApaBytes(m) == LET k == ApaK(m) v == m + k IN
  SubSeq(<<IF k = 1 THEN v ELSE (k - 1) * 64 + (v % 16), (v \div 16) % 256, (v \div 4096) % 256, (v \div 1048576) % 256>>, 1, k)
InvApaAgrees == \A n \in Lo..Hi : InclFits(n) => PkgIncl(n) = ApaBytes(n)
\* PkgLength, exclusive: every width that can carry n decodes to n
InvPkgExcl == \A n \in Lo..Hi : ExclFits(n) => \A k \in MinK(n)..4 : LET d == PkgDec(PkgBytes(n, k), 0) IN d.ok /\ d.v = n /\ d.k = k
\* integers (values < 2^31 here; the byte-string forms beyond are covered by InvIntWide)
InvInt == \A n \in Lo..Hi :
  LET v == LE(n, 8) b == IntEnc(v) d == IntDec(b, 0) IN
  /\ d.ok /\ d.v = v /\ d.n = Len(b)
  /\ Len(b) = (IF n <= 1 THEN 1 ELSE IF n <= 255 THEN 2 ELSE IF n <= 65535 THEN 3 ELSE 5)
WideSamples == {<<0, 0, 0, 0, 1, 0, 0, 0>>, <<255, 255, 255, 255, 0, 0, 0, 0>>, <<255, 255, 255, 255, 255, 255, 255, 255>>,
                <<0, 0, 0, 128, 0, 0, 0, 0>>, <<0, 0, 0, 0, 0, 0, 0, 128>>, <<1, 0, 0, 0, 0, 0, 0, 1>>, <<0, 0, 1, 0, 0, 0, 0, 0>>}
InvIntWide == \A v \in WideSamples : LET b == IntEnc(v) d == IntDec(b, 0) IN d.ok /\ d.v = v /\ d.n = Len(b)
                                     /\ Len(b) = (IF SigBytes(v) <= 2 THEN 3 ELSE IF SigBytes(v) <= 4 THEN 5 ELSE 9)
Bool2(b) == IF b THEN 1 ELSE 0
\* NameString: all segment counts 1..255, rooted or not
SegN(i) == <<65 + (i % 26), 48 + (i % 10), 95, 65 + ((i \div 26) % 26)>>
InvName == \A c \in 1..255 : \A r \in BOOLEAN :
  LET p == [root |-> r, segs |-> [i \in 1..c |-> SegN(i)]] b == NameEnc(p) d == NameDec(b, 0) IN
  /\ d.ok /\ d.p = p /\ d.n = Len(b)
  /\ Len(b) = Bool2(r) + 4 * c + (IF c = 1 THEN 0 ELSE IF c = 2 THEN 1 ELSE 2)
\* ParsePath splits as the inverse of joining with dots
InvParse == \A c \in 1..6 : \A r \in BOOLEAN :
  LET segs == [i \in 1..c |-> SegN(i)]
      s == (IF r THEN <<92>> ELSE <<>>) \o FoldLeft(LAMBDA acc, i : acc \o (IF i > 1 THEN <<46>> ELSE <<>>) \o segs[i], <<>>, [i \in 1..c |-> i])
  IN ParsePath(s) = [root |-> r, segs |-> segs] /\ PathWellFormed(s)
\* EISA: decompress o compress = id on a sub-lattice, every position over its full alphabet
Letters == 65..90
HexDigits == (48..57) \cup (65..70)
InvEisa == /\ \A a \in Letters, b \in Letters, c \in Letters :
                LET s == <<a, b, c, 48, 65, 57, 70>> IN EisaValid(s) /\ EisaDecompress(EisaCompress(s)) = s
           /\ \A h1 \in HexDigits, h2 \in HexDigits, h3 \in HexDigits, h4 \in HexDigits :
                LET s == <<80, 78, 80, h1, h2, h3, h4>> IN EisaDecompress(EisaCompress(s)) = s
           /\ EisaCompress(<<80, 78, 80, 48, 65, 48, 56>>) = <<65, 208, 10, 8>>        \* PNP0A08 = 0x080AD041
\* ToUUID: the example of the ACPI specification's definition and the inverse
U1 == <<97, 97, 98, 98, 99, 99, 100, 100, 45, 101, 101, 102, 102, 45, 48, 49, 50, 51, 45, 52, 53, 54, 55, 45, 56, 57, 97, 98, 99, 100, 101, 102, 48, 49, 50, 51>>
InvUuid == /\ UuidValid(U1)
           /\ UuidBytes(U1) = <<221, 204, 187, 170, 255, 238, 35, 1, 69, 103, 137, 171, 205, 239, 1, 35>>
           /\ UuidString(UuidBytes(U1)) = U1
=============================================================================
