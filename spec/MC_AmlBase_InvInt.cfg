SPECIFICATION Spec
INVARIANT InvInt
CHECK_DEADLOCK FALSE
