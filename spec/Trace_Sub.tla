------------------------------ MODULE Trace_Sub ------------------------------
(* Implementation -> specification for stand-alone sub-structures: one event *)
(* per prefix of the builder-call sequence, carrying the bytes the structure *)
(* serialises to.  Judges C11 (flag union, frame) and C04 (image equality).  *)
EXTENDS Options, TraceCommon

VARIABLES before, l
tvars == <<before, l>>
TInit == before = <<>> /\ l = 1
E == Rec[l]

Info(what) == [l |-> l, run |-> E.run, st |-> E.st, k |-> E.k, what |-> what,
               last |-> IF E.k > 0 THEN E.e.calls[E.k].o ELSE "constructor",
               sig |-> E.st \o "/" \o (IF E.k > 0 THEN E.e.calls[E.k].o ELSE "constructor") \o "/" \o what]

\* C18 for structures serialised on their own: the same field limits as when they are added to a table
NCallsK(o) == Len(SelectSeq(SubSeq(E.e.calls, 1, E.k), LAMBDA c : c.o = o))
SubFits ==
  CASE E.st = "proc" -> 20 + 4 * NCallsK("add_cache") <= 255
    [] E.st = "cxims" -> NCallsK("add_xormap") <= 255
    [] E.st = "msci" -> NCallsK("add_smbios_handle") <= 65535
    [] E.st = "iommu" -> 32 + 8 * Len(OptList(E.e.a, "wires")) <= 65535
    [] E.st = "rc" -> 16 + 20 * Len(OptList(E.e.a, "maps")) <= 65535
    [] E.st = "plat" -> 12 + Len(E.e.a.name) + 1 + 20 * Len(OptList(E.e.a, "maps")) <= 65535
    [] E.st = "hart" -> 12 + 4 * (1 + NCallsK("with_cmo")) <= 65535
    [] E.st = "qos" -> 28 + FoldLeft(LAMBDA acc, c : acc + Len(ResBytes(c.a.v)), 0, SubSeq(E.e.calls, 1, E.k)) <= 65535
    [] OTHER -> TRUE
TSub ==
  /\ E.ev = "sub"
  /\ before' = E.img
  /\ Judge("C18", ~E.panic => SubFits, Info("oversize_not_refused"))
  /\ IF E.panic THEN Judge("C11", ~SubFits, Info("unexpected_panic")) /\ Judge("C04", ~SubFits, Info("unexpected_panic"))
     ELSE LET ref == LayBytes(LayK(E.st, E.e, E.R, E.k)) IN
          /\ Judge("C11", ObsFlagUnion(E.st, E.e, E.R, E.k, E.img), Info("flag_union"))
          /\ Judge("C11", (E.k > 0 /\ ~E.first) => ObsFrame(E.st, E.e, E.R, E.k, before, E.img), Info("frame"))
          \* the error status block: ACPI defines the bits, not which of them a COUNT of errors sets -- with more than one
          \* error the "multiple" bit must be set and the "valid" bit may be; everything else is the reference
          /\ Judge("C04", E.img = ref \/ (E.st = "gestatus" /\ Len(E.img) = Len(ref) /\ SubSeq(E.img, 2, Len(ref)) = SubSeq(ref, 2, Len(ref))
                                          /\ E.img[1] \in {ref[1], ref[1] + (IF ref[1] \div 8 % 2 = 1 THEN 2 ELSE 0),
                                                            ref[1] + (IF ref[1] \div 4 % 2 = 1 THEN 1 ELSE 0),
                                                            ref[1] + (IF ref[1] \div 8 % 2 = 1 THEN 2 ELSE 0) + (IF ref[1] \div 4 % 2 = 1 THEN 1 ELSE 0)}),
                   \* a recorded deviation is recognised exactly: the image is the reference with the section-type GUID
                   \* truncated to the two bytes the crate's public field can hold, and nothing else differs
                   IF E.st = "gedata" /\ E.img = SubSeq(ref, 1, 2) \o SubSeq(ref, 17, Len(ref))
                   THEN [sig |-> "hest/GenericErrorData/section_type_width", explen |-> Len(ref), gotlen |-> Len(E.img)] @@ Info("image")
                   ELSE Info("image") @@ [at |-> FirstDiff(ref, E.img), explen |-> Len(ref), gotlen |-> Len(E.img)])

TNext == l <= NRec /\ l' = l + 1 /\ TSub
TSpec == TInit /\ [][TNext]_tvars
Done == DoneMsg(l)
=============================================================================
