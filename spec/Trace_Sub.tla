------------------------------ MODULE Trace_Sub ------------------------------
(* Implementation -> specification for stand-alone sub-structures: one event *)
(* per prefix of the builder-call sequence, carrying the bytes the structure *)
(* serialises to.  Judges C11 (flag union, frame) and C04 (image equality).  *)
EXTENDS Options, TraceCommon

VARIABLES before, l
tvars == <<before, l>>
TInit == before = <<>> /\ l = 1
E == Rec[l]

Info(what) == [l |-> l, run |-> E.run, st |-> E.st, k |-> E.k, what |-> what,
               last |-> IF E.k > 0 THEN E.e.calls[E.k].o ELSE "constructor",
               sig |-> E.st \o "/" \o (IF E.k > 0 THEN E.e.calls[E.k].o ELSE "constructor") \o "/" \o what]

TSub ==
  /\ E.ev = "sub"
  /\ before' = E.img
  /\ IF E.panic THEN Judge("C11", FALSE, Info("unexpected_panic")) /\ Judge("C04", FALSE, Info("unexpected_panic"))
     ELSE LET ref == LayBytes(LayK(E.st, E.e, E.R, E.k)) IN
          /\ Judge("C11", ObsFlagUnion(E.st, E.e, E.R, E.k, E.img), Info("flag_union"))
          /\ Judge("C11", (E.k > 0 /\ ~E.first) => ObsFrame(E.st, E.e, E.R, E.k, before, E.img), Info("frame"))
          /\ Judge("C04", E.img = ref,
                   \* a recorded deviation is recognised exactly: the image is the reference with the section-type GUID
                   \* truncated to the two bytes the crate's public field can hold, and nothing else differs
                   IF E.st = "gedata" /\ E.img = SubSeq(ref, 1, 2) \o SubSeq(ref, 17, Len(ref))
                   THEN [sig |-> "hest/GenericErrorData/section_type_width", explen |-> Len(ref), gotlen |-> Len(E.img)] @@ Info("image")
                   ELSE Info("image") @@ [at |-> FirstDiff(ref, E.img), explen |-> Len(ref), gotlen |-> Len(E.img)])

TNext == l <= NRec /\ l' = l + 1 /\ TSub
TSpec == TInit /\ [][TNext]_tvars
Done == DoneMsg(l)
=============================================================================
