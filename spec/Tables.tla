------------------------------- MODULE Tables -------------------------------
(***************************************************************************)
(* The static-table builders as state machines.                            *)
(*                                                                         *)
(* Abstract state of a table under construction:                           *)
(*    kind   which table ("MADT", "SRAT", ...)                             *)
(*    ctor   the constructor arguments (header fields, table specifics)    *)
(*    ents   the sequence of mutating operations performed so far, each    *)
(*           [op |-> name, a |-> arguments, calls |-> builder calls made   *)
(*           on the entry before it was added]                             *)
(*    rets   per operation, the handle value it returned (<<>> if none)    *)
(* The image is a function of this state: TblImage.  Every public mutator  *)
(* of the crate is one operation name here.                                *)
(***************************************************************************)
EXTENDS Layouts

Sig == [BERT |-> <<66, 69, 82, 84>>, CEDT |-> <<67, 69, 68, 84>>, FADT |-> <<70, 65, 67, 80>>, HEST |-> <<72, 69, 83, 84>>,
        HMAT |-> <<72, 77, 65, 84>>, MADT |-> <<65, 80, 73, 67>>, MCFG |-> <<77, 67, 70, 71>>, PPTT |-> <<80, 80, 84, 84>>,
        RHCT |-> <<82, 72, 67, 84>>, RIMT |-> <<82, 73, 77, 84>>, RQSC |-> <<82, 81, 83, 67>>, SLIT |-> <<83, 76, 73, 84>>,
        SPCR |-> <<83, 80, 67, 82>>, SRAT |-> <<83, 82, 65, 84>>, TCPA_CLIENT |-> <<84, 67, 80, 65>>,
        TCPA_SERVER |-> <<84, 67, 80, 65>>, TPM2 |-> <<84, 80, 77, 50>>, VIOT |-> <<86, 73, 79, 84>>, XSDT |-> <<88, 83, 68, 84>>]

HeaderKinds == DOMAIN Sig
AllKinds == HeaderKinds \cup {"RSDP", "FACS"}
ChecksummedKinds == AllKinds \ {"FACS"}

\* operation name -> structure name in Layouts.tla
OpStruct == [add_lapic |-> "lapic", add_ioapic |-> "ioapic", add_gicc |-> "gicc", add_gicd |-> "gicd", add_gicmsi |-> "gicmsi",
             add_gicr |-> "gicr", add_gicits |-> "gicits", add_rintc |-> "rintc", add_imsic |-> "imsic",
             add_imsic_raw |-> "imsic", add_aplic |-> "aplic", add_plic |-> "plic",
             add_memory_affinity |-> "memaff", add_generic_initiator |-> "geninit", add_rintc_affinity |-> "rintcaff",
             add_memory_proximity |-> "mpda", add_system_locality |-> "sllbi", add_memory_side_cache |-> "msci",
             add_processor |-> "proc", add_cache |-> "cache",
             add_isa_string |-> "isa", add_cmo |-> "cmo", add_mmu_node |-> "mmu", add_hart_info |-> "hart",
             add_iommu |-> "iommu", add_pcie_root_complex |-> "rc", add_platform |-> "plat",
             add_pci_range |-> "pcirange", add_mmio_endpoint |-> "mmioep", add_virtio_pci_iommu |-> "vpciiommu",
             add_virtio_mmio_iommu |-> "vmmioiommu",
             add_host_bridge |-> "chbs", add_fixed_memory |-> "cfmws", add_xor_interleave_math |-> "cxims",
             add_port_association |-> "rdpas",
             add_aer_root_port |-> "aerroot", add_aer_device |-> "aerdev", add_aer_bridge |-> "aerbridge",
             add_ghes |-> "ghes", add_ghes_v2 |-> "ghesv2",
             add_controller |-> "qos", add_ecam |-> "ecam", add_entry |-> "xent"]
\* "add_default": an entry obtained from the entry type's Default (every field zero; the QoS controller's own
\* length field still counts its 28-byte fixed part) handed to the table's add operation.  Such an entry has no
\* type / length of its own, so it says nothing about C03/C04; the table-level facts (checksum, Length, counts,
\* returned offsets) must hold all the same.
DefaultSize == [lapic |-> 8, ioapic |-> 12, gicc |-> 82, gicd |-> 24, gicmsi |-> 24, gicr |-> 16, gicits |-> 20, rintc |-> 36,
                imsic |-> 16, rintcaff |-> 20, mpda |-> 40, cache |-> 28, aerroot |-> 48, aerdev |-> 44, aerbridge |-> 56,
                ghes |-> 64, ghesv2 |-> 92, qos |-> 28]
DefaultBytes(st) == IF st = "qos" THEN <<0, 0, 28, 0>> \o Zeros(24) ELSE Zeros(DefaultSize[st])
IsDefault(e) == e.op = "add_default"
IsAdd(e) == e.op \in DOMAIN OpStruct \/ IsDefault(e)
EntryLay(e, R) == IF IsDefault(e) THEN <<N("default", DefaultBytes(e.a.st))>> ELSE SLay(OpStruct[e.op], SState(OpStruct[e.op], e, R))
EntryBytes(e, R) == LayBytes(EntryLay(e, R))
HasDefaults(es) == \E i \in 1..Len(es) : IsDefault(es[i])
Adds(ents) == SelectSeq(ents, IsAdd)

\* which operations return a handle (and which kind of node the handle names)
ReturnsHandle(op) == op \in {"add_processor", "add_cache", "add_isa_string", "add_cmo", "add_iommu",
                             "add_virtio_pci_iommu", "add_virtio_mmio_iommu"}

ReturnsHandleE(e) == ReturnsHandle(e.op) \/ (IsDefault(e) /\ e.a.st = "cache")

---------------------------------------------------------------------------
(* standard header (ACPI 5.2.6): signature, length, revision, checksum, OEM id, OEM table id, OEM revision,
   creator id, creator revision.  revision / creator id / creator revision are not the caller's and not
   constrained by this specification: they are carried in ctor (bound from the crate's constants / the
   observation, DESIGN 5/C04). *)
Hdr(kind, c) == <<K(Sig[kind]), N("length", Z(4)), N("rev", c.rev), N("cksum", <<0>>), N("oem_id", c.oem_id),
                  N("oem_table_id", c.oem_table_id), N("oem_rev", c.oem_rev), N("creator_id", c.creator_id),
                  N("creator_rev", c.creator_rev)>>

FlagBit == [Wbinvd |-> {0}, WbinvdFlush |-> {1}, ProcC1 |-> {2}, PLvl2Up |-> {3}, PwrButton |-> {4}, SlpButton |-> {5},
            FixRtc |-> {6}, RtcS4 |-> {7}, TmrValExt |-> {8}, DckCap |-> {9}, ResetRegSup |-> {10}, SealedCase |-> {11},
            Headless |-> {12}, CpuSwSlp |-> {13}, PciExpWak |-> {14}, UsePlatformClock |-> {15}, S4RtcStsValid |-> {16},
            RemotePowerOnCapable |-> {17}, ForceApicClusterModel |-> {18}, ForceApicPhysicalDestinationMode |-> {19},
            HwReducedAcpi |-> {20}, LowPowerS0IdleCapable |-> {21}, PersistentCpuCachesNotReported |-> {},
            PersistentCpuCachesNotPersistent |-> {22}, PersistentCpuCachesArePersistent |-> {23}]
PmProfileCode == [Unspecified |-> 0, Desktop |-> 1, Mobile |-> 2, Workstation |-> 3, EnterpriseServer |-> 4,
                  SohoServer |-> 5, AppliancePc |-> 6, PerformanceServer |-> 7, Tablet |-> 8]

Fadt_Init == [firmware_ctrl |-> Z(4), dsdt |-> Z(4), pm_profile |-> Z(1), acpi_enable |-> Z(1), acpi_disable |-> Z(1),
              gpe0_blk |-> Z(4), gpe1_blk |-> Z(4), gpe0_len |-> Z(1), gpe1_len |-> Z(1), gpe1_base |-> Z(1),
              flags |-> {}, x_firmware_ctrl |-> Z(8), x_dsdt |-> Z(8),
              \* the remaining fields are public and filled in by direct assignment before finalize() ("set")
              sci_int |-> Z(2), smi_cmd |-> Z(4), s4bios_req |-> Z(1), pstate_cnt |-> Z(1), pm1a_evt_blk |-> Z(4), pm1b_evt_blk |-> Z(4), pm1a_cnt_blk |-> Z(4), pm1b_cnt_blk |-> Z(4), pm2_cnt_blk |-> Z(4), pm_tmr_blk |-> Z(4),
              pm1_evt_len |-> Z(1), pm1_cnt_len |-> Z(1), pm2_cnt_len |-> Z(1), pm_tmr_len |-> Z(1), cst_cnt |-> Z(1), p_lvl2_lat |-> Z(2), p_lvl3_lat |-> Z(2), flush_size |-> Z(2), flush_stride |-> Z(2), duty_offset |-> Z(1), duty_width |-> Z(1), day_alrm |-> Z(1), mon_alrm |-> Z(1), century |-> Z(1), iapc_boot_arch |-> Z(2), reset_value |-> Z(1), arm_boot_arch |-> Z(2), hypervisor_vendor_identity |-> Z(8),
              reset_reg |-> GasZero, x_pm1a_evt_blk |-> GasZero, x_pm1b_evt_blk |-> GasZero, x_pm1a_cnt_blk |-> GasZero, x_pm1b_cnt_blk |-> GasZero, x_pm2_cnt_blk |-> GasZero, x_pm_tmr_blk |-> GasZero, x_gpe0_blk |-> GasZero, x_gpe1_blk |-> GasZero, sleep_control_reg |-> GasZero, sleep_status_reg |-> GasZero]
FadtGasFields == {"reset_reg", "x_pm1a_evt_blk", "x_pm1b_evt_blk", "x_pm1a_cnt_blk", "x_pm1b_cnt_blk", "x_pm2_cnt_blk", "x_pm_tmr_blk", "x_gpe0_blk", "x_gpe1_blk", "sleep_control_reg", "sleep_status_reg"}
Fadt_Call(s, c) ==
  CASE c.op = "dsdt_32" -> [s EXCEPT !.dsdt = c.a.v, !.x_dsdt = Z(8)]
    [] c.op = "dsdt_64" -> [s EXCEPT !.dsdt = Z(4), !.x_dsdt = c.a.v]
    [] c.op = "firmware_ctrl_32" -> [s EXCEPT !.firmware_ctrl = c.a.v, !.x_firmware_ctrl = Z(8)]
    [] c.op = "firmware_ctrl_64" -> [s EXCEPT !.firmware_ctrl = Z(4), !.x_firmware_ctrl = c.a.v]
    [] c.op = "acpi_enable" -> [s EXCEPT !.acpi_enable = <<1>>, !.acpi_disable = <<0>>]
    [] c.op = "acpi_disable" -> [s EXCEPT !.acpi_enable = <<0>>, !.acpi_disable = <<1>>]
    [] c.op = "flag" -> [s EXCEPT !.flags = @ \cup FlagBit[c.a.v]]
    [] c.op = "gpe_info" -> [s EXCEPT !.gpe0_blk = c.a.gpe0_blk, !.gpe1_blk = c.a.gpe1_blk, !.gpe0_len = c.a.gpe0_len,
                                      !.gpe1_len = c.a.gpe1_len, !.gpe1_base = c.a.gpe1_base]
    [] c.op = "preferred_pm_profile" -> [s EXCEPT !.pm_profile = <<PmProfileCode[c.a.v]>>]
    [] c.op = "set" -> IF c.a.f = "checksum" THEN s                       \* finalize() recomputes it whatever was there
                       ELSE IF c.a.f = "flags" THEN [s EXCEPT !.flags = BitSet(c.a.v)]
                       ELSE IF c.a.f \in FadtGasFields THEN [s EXCEPT ![c.a.f] = GasBytes(c.a.v)]
                       ELSE [s EXCEPT ![c.a.f] = c.a.v]
    [] OTHER -> s                                          \* a refused operation leaves the state as it was
Fadt_Lay(c, s) == Hdr("FADT", c) \o
  <<N("firmware_ctrl", s.firmware_ctrl), N("dsdt", s.dsdt), K(Z(1)), N("pm_profile", s.pm_profile), N("sci_int", s.sci_int),
    N("smi_cmd", s.smi_cmd), N("acpi_enable", s.acpi_enable), N("acpi_disable", s.acpi_disable), N("s4bios_req", s.s4bios_req),
    N("pstate_cnt", s.pstate_cnt), N("pm1a_evt_blk", s.pm1a_evt_blk), N("pm1b_evt_blk", s.pm1b_evt_blk),
    N("pm1a_cnt_blk", s.pm1a_cnt_blk), N("pm1b_cnt_blk", s.pm1b_cnt_blk), N("pm2_cnt_blk", s.pm2_cnt_blk),
    N("pm_tmr_blk", s.pm_tmr_blk), N("gpe0_blk", s.gpe0_blk), N("gpe1_blk", s.gpe1_blk),
    N("pm1_evt_len", s.pm1_evt_len), N("pm1_cnt_len", s.pm1_cnt_len), N("pm2_cnt_len", s.pm2_cnt_len), N("pm_tmr_len", s.pm_tmr_len),
    N("gpe0_len", s.gpe0_len), N("gpe1_len", s.gpe1_len), N("gpe1_base", s.gpe1_base), N("cst_cnt", s.cst_cnt),
    N("p_lvl2_lat", s.p_lvl2_lat), N("p_lvl3_lat", s.p_lvl3_lat), N("flush_size", s.flush_size), N("flush_stride", s.flush_stride),
    N("duty_offset", s.duty_offset), N("duty_width", s.duty_width), N("day_alrm", s.day_alrm), N("mon_alrm", s.mon_alrm),
    N("century", s.century), N("iapc_boot_arch", s.iapc_boot_arch), K(Z(1)),
    N("flags", BitsLE(s.flags, 4)), N("reset_reg", s.reset_reg), N("reset_value", s.reset_value), N("arm_boot_arch", s.arm_boot_arch),
    N("minor", c.minor), N("x_firmware_ctrl", s.x_firmware_ctrl), N("x_dsdt", s.x_dsdt),
    N("x_pm1a_evt_blk", s.x_pm1a_evt_blk), N("x_pm1b_evt_blk", s.x_pm1b_evt_blk), N("x_pm1a_cnt_blk", s.x_pm1a_cnt_blk),
    N("x_pm1b_cnt_blk", s.x_pm1b_cnt_blk), N("x_pm2_cnt_blk", s.x_pm2_cnt_blk), N("x_pm_tmr_blk", s.x_pm_tmr_blk),
    N("x_gpe0_blk", s.x_gpe0_blk), N("x_gpe1_blk", s.x_gpe1_blk), N("sleep_control_reg", s.sleep_control_reg),
    N("sleep_status_reg", s.sleep_status_reg), N("hypervisor_vendor_identity", s.hypervisor_vendor_identity)>>

\* FACS: public fields assigned directly
Facs_Init == [hardware_signature |-> Z(4), waking |-> Z(4), lock |-> Z(4), flags |-> Z(4), x_waking |-> Z(8), ospm_flags |-> Z(4)]
Facs_Call(s, c) == IF c.op = "set" /\ c.a.f \in DOMAIN s THEN [s EXCEPT ![c.a.f] = c.a.v] ELSE s

TcpaS_Init == [laml |-> Z(8), lasa |-> Z(8), dev_flags |-> {}, int_flags |-> {}, gpe |-> Z(1), gsi |-> Z(4), base |-> GasZero,
               cfg |-> GasZero, seg |-> Z(1), bus |-> Z(1), dev |-> Z(1), fn |-> Z(1)]
TcpaS_Call(s, c) ==
  CASE c.op = "log_area" -> [s EXCEPT !.laml = c.a.laml, !.lasa = c.a.lasa]
    [] c.op = "active_low" -> [s EXCEPT !.int_flags = @ \cup {1}]
    [] c.op = "edge_triggered" -> [s EXCEPT !.int_flags = @ \cup {0}]
    [] c.op = "sci_gpe" -> [s EXCEPT !.gpe = c.a.v, !.int_flags = @ \cup {2}]
    [] c.op = "gsi" -> [s EXCEPT !.gsi = c.a.v, !.int_flags = @ \cup {3}]
    [] c.op = "bus_is_pnp" -> [s EXCEPT !.dev_flags = @ \cup {1}]
    [] c.op = "pci_sbdf" -> [s EXCEPT !.seg = c.a.seg, !.bus = c.a.bus, !.dev = c.a.dev, !.fn = c.a.fn, !.dev_flags = @ \cup {0}]
    [] c.op = "base_addr" -> [s EXCEPT !.base = GasBytes(c.a.v)]
    [] c.op = "config_addr" -> [s EXCEPT !.cfg = GasBytes(c.a.v), !.dev_flags = @ \cup {2}]
    [] OTHER -> s                                          \* a refused operation leaves the state as it was
TcpaS_Lay(c, s) == Hdr("TCPA_SERVER", c) \o
  <<N("class", <<1, 0>>), K(Z(2)), N("laml", s.laml), N("lasa", s.lasa), N("tcg_rev", c.tcg_rev),
    N("dev_flags", BitsLE(s.dev_flags, 1)), N("int_flags", BitsLE(s.int_flags, 1)), N("gpe", s.gpe), K(Z(3)),
    N("gsi", s.gsi), N("base", s.base), K(Z(4)), N("cfg", s.cfg), N("seg", s.seg), N("bus", s.bus), N("dev", s.dev),
    N("fn", s.fn)>>

StartCode == [LegacyUse |-> 1, AcpiStart |-> 2, Mmio |-> 6, Crb |-> 7, CrbAndAcpiStart |-> 8, CrbAndSmcHvc |-> 11, I2cFifo |-> 12]
ClassCode == [Client |-> 0, Server |-> 1]

\* SLIT: symmetric distance matrix, default 10; cells after the recorded assignments (last writer wins)
SlitCell(ents, i, j) ==
  LET hits == {k \in 1..Len(ents) : ents[k].op = "set_distance" /\
                 ((ents[k].a.a = i /\ ents[k].a.b = j) \/ (ents[k].a.a = j /\ ents[k].a.b = i))}
  IN IF hits = {} THEN 10 ELSE ents[CHOOSE k \in hits : \A m \in hits : m <= k].a.v[1]
SlitMatrix(n, ents) == [k \in 1..(n * n) |-> SlitCell(ents, (k - 1) \div n, (k - 1) % n)]

LicAddr(c) == IF c.lic = "Riscv" THEN Z(4) ELSE c.lic_addr
BodyOf(ents, R) == Flat([i \in 1..Len(ents) |-> IF IsAdd(ents[i]) THEN EntryBytes(ents[i], R) ELSE <<>>])
NAdds(ents) == Len(Adds(ents))
HasOp(ents, op) == \E i \in 1..Len(ents) : ents[i].op = op
OpRec(ents, op) == ents[CHOOSE i \in 1..Len(ents) : ents[i].op = op]

\* table layout: named chunks (length and checksum chunks still zero)
TblLay(kind, c, ents, R) ==
  CASE kind = "BERT" -> Hdr(kind, c) \o <<N("region_len", c.region_len), N("region_base", c.region_base)>>
    [] kind = "FACS" -> LET f == FoldLeft(Facs_Call, Facs_Init, ents) IN
                        <<K(<<70, 65, 67, 83>>), N("length", Z(4)), N("hw_sig", f.hardware_signature), N("waking", f.waking),
                          N("lock", f.lock), N("flags", f.flags), N("x_waking", f.x_waking), N("facs_version", c.facs_version),
                          K(Z(3)), N("ospm_flags", f.ospm_flags), K(Z(24))>>
    [] kind = "RSDP" -> <<K(<<82, 83, 68, 32, 80, 84, 82, 32>>), N("cksum20", <<0>>), N("oem_id", c.oem_id), N("rsdp_rev", <<2>>),
                          N("rsdt", Z(4)), N("length20", Z(4)), N("xsdt", c.xsdt), N("xcksum", <<0>>), K(Z(3))>>
    [] kind = "SPCR" -> Hdr(kind, c) \o
         <<N("iftype", <<21>>), K(Z(3)), N("base", GasZero), N("int_type", Z(1)), N("irq", Z(1)), N("gsi", Z(4)),
           N("baud", Z(1)), N("parity", Z(1)), N("stop", Z(1)), N("flow", Z(1)), N("term", Z(1)), N("lang", Z(1)),
           N("pci_dev_id", <<255, 255>>), N("pci_ven_id", <<255, 255>>), N("pci_bdf", Z(3)), N("pci_flags", Z(4)),
           N("pci_seg", Z(1)), N("clock", Z(4)), N("precise_baud", Z(4)), N("ns_len", <<2, 0>>), N("ns_off", <<88, 0>>),
           N("ns", <<46, 0>>)>>
    [] kind = "TCPA_CLIENT" -> Hdr(kind, c) \o <<N("class", <<0, 0>>), N("laml", c.laml), N("lasa", c.lasa)>>
    [] kind = "TCPA_SERVER" -> TcpaS_Lay(c, FoldLeft(TcpaS_Call, TcpaS_Init, ents))
    [] kind = "FADT" -> Fadt_Lay(c, FoldLeft(Fadt_Call, Fadt_Init, ents))
    [] kind = "TPM2" -> Hdr(kind, c) \o
         <<N("class", <<ClassCode[c.class], 0>>), K(Z(2)), N("base", c.base), N("start", LE(StartCode[c.start], 4))>> \o
         (IF HasOp(ents, "set_log_area")
          THEN <<N("params", Z(12)), N("laml", OpRec(ents, "set_log_area").a.min_len), N("lasa", OpRec(ents, "set_log_area").a.base)>>
          ELSE <<>>)
    [] kind = "XSDT" -> Hdr(kind, c) \o <<N("body", BodyOf(ents, R))>>
    [] kind = "MCFG" -> Hdr(kind, c) \o <<K(Z(8)), N("body", BodyOf(ents, R))>>
    [] kind = "SLIT" -> Hdr(kind, c) \o <<N("n", LE(c.n, 4) \o Z(4)), N("matrix", SlitMatrix(c.n, ents))>>
    [] kind = "MADT" -> Hdr(kind, c) \o <<N("lic_addr", LicAddr(c)), N("madt_flags", Z(4)), N("body", BodyOf(ents, R))>>
    [] kind = "SRAT" -> Hdr(kind, c) \o <<K(<<1, 0, 0, 0>>), K(Z(8)), N("body", BodyOf(ents, R))>>
    [] kind = "HMAT" -> Hdr(kind, c) \o <<K(Z(4)), N("body", BodyOf(ents, R))>>
    [] kind = "PPTT" -> Hdr(kind, c) \o <<N("body", BodyOf(ents, R))>>
    [] kind = "CEDT" -> Hdr(kind, c) \o <<N("body", BodyOf(ents, R))>>
    [] kind = "RHCT" -> Hdr(kind, c) \o <<K(Z(4)), N("timebase", c.timebase), N("count", LE(NAdds(ents), 4)),
                                           N("array_off", LE(56, 4)), N("body", BodyOf(ents, R))>>
    [] kind = "RIMT" -> Hdr(kind, c) \o <<N("count", LE(NAdds(ents), 4)), N("array_off", LE(48, 4)), K(Z(4)),
                                           N("body", BodyOf(ents, R))>>
    [] kind = "VIOT" -> Hdr(kind, c) \o <<N("count", LE(NAdds(ents), 2)), N("array_off", LE(48, 2)), K(Z(8)),
                                           N("body", BodyOf(ents, R))>>
    [] kind = "HEST" -> Hdr(kind, c) \o <<N("count", LE(NAdds(ents), 4)), N("body", BodyOf(ents, R))>>
    [] kind = "RQSC" -> Hdr(kind, c) \o <<N("count", LE(NAdds(ents), 4)), N("body", BodyOf(ents, R))>>

\* where the first entry starts
FirstEntryOff == [XSDT |-> 36, MCFG |-> 44, MADT |-> 44, SRAT |-> 48, HMAT |-> 40, PPTT |-> 36, CEDT |-> 36, RHCT |-> 56,
                  RIMT |-> 48, VIOT |-> 48, HEST |-> 40, RQSC |-> 40]
BodyKinds == DOMAIN FirstEntryOff

\* chunks whose value is neither the caller's nor fixed by the governing specification
FreeNames == {"rev", "minor", "facs_version", "tcg_rev"}

\* final image: length fields and checksums filled in
FixCkAt(img, off) == LET z == Patch(img, off, <<0>>) IN Patch(z, off, <<Cksum(z)>>)
Finish(kind, raw) ==
  CASE kind = "FACS" -> Patch(raw, 4, LE(Len(raw), 4))
    [] kind = "RSDP" -> LET a == Patch(raw, 20, LE(Len(raw), 4))
                            b == Patch(a, 8, <<Cksum(Slice(a, 0, 20))>>)
                        IN FixCkAt(b, 32)
    [] OTHER -> FixCkAt(Patch(raw, 4, LE(Len(raw), 4)), 9)
TblImage(kind, c, ents, R) == Finish(kind, LayBytes(TblLay(kind, c, ents, R)))
\* reference image with the unconstrained chunks taken from an observed image
TblImageLike(kind, c, ents, R, obs) ==
  LET lay == TblLay(kind, c, ents, R)
      raw == LayBytes(lay)
      free == {p \in ChunkRange(lay, FreeNames) : p < Len(obs)}
  IN Finish(kind, [i \in 1..Len(raw) |-> IF (i - 1) \in free THEN obs[i] ELSE raw[i]])

\* 0-based offsets of the added entries, from the reference entry lengths
EntryOffsets(kind, ents, R) ==
  LET adds == Adds(ents)
      step(acc, e) == [offs |-> Append(acc.offs, acc.next), next |-> acc.next + Len(EntryBytes(e, R))]
  IN FoldLeft(step, [offs |-> <<>>, next |-> FirstEntryOff[kind]], adds).offs
=============================================================================
