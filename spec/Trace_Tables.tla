---------------------------- MODULE Trace_Tables ----------------------------
(***************************************************************************)
(* Implementation -> specification for the static tables.  Each recorded   *)
(* event is a constructor call or one public mutating operation together   *)
(* with the image the real crate serialised right after it.  The trace     *)
(* specification rebuilds the abstract table state (Tables.tla) from the   *)
(* logged operations and evaluates, on the OBSERVED bytes, one predicate   *)
(* per property:                                                           *)
(*   C01 sum = 0           C02 Length field = bytes emitted                *)
(*   C03 independent walk tiles the body, shapes and counts agree          *)
(*   C04 image = reference encoding      C05 handles are true offsets      *)
(*   C11 option calls (whole-table builders FADT / TCPA server; "sub"      *)
(*       events for entry builders)      C12 matrices                      *)
(***************************************************************************)
EXTENDS Judges, TraceCommon

VARIABLES kind, ctor, ents, rets, prev, psum, dead, l
tvars == <<kind, ctor, ents, rets, prev, psum, dead, l>>

\* psum: byte sum of the previously observed image of this table (-1: none) -- a wrong checksum is reported at
\* the operation that broke it, not again at every later operation that correctly carries the error along
\* dead: an operation panicked although the specification accepts it (reported once); the object's state is then
\* unknown and the rest of that program is not judged
TInit == kind = "" /\ ctor = <<>> /\ ents = <<>> /\ rets = <<>> /\ prev = <<>> /\ psum = -1 /\ dead = FALSE /\ l = 1
E == Rec[l]

FreeDefaults == [rev |-> <<0>>, minor |-> <<0>>, facs_version |-> <<0>>, tcg_rev |-> <<0, 0>>]
Base(what) == [l |-> l, run |-> E.run, kind |-> kind', what |-> what,
               op |-> IF E.ev = "op" THEN E.op.op ELSE E.ev, n |-> Len(ents')]
SigOf(what) == kind' \o "/" \o (IF E.ev = "op" THEN E.op.op ELSE E.ev) \o "/" \o what
F(what, more) == Base(what) @@ [sig |-> SigOf(what)] @@ more

JudgeImage(k, c, es, rs, img, before, ps) ==
  LET ref == TblImageLike(k, c, es, rs, img) IN
  \* C01: reported when the sum is wrong and this very operation made it so (no cascade from an earlier break)
  /\ Judge("C01", P_C01(k, img) \/ (ps > 0 /\ ps = Sum8(img)),
           F("checksum", [sum |-> Sum8(img)]))
  /\ Judge("C02", P_C02(k, img),
           F("length", [emitted |-> Len(img), declared |-> IF Len(img) >= 8 THEN Slice(img, IF k = "RSDP" THEN 20 ELSE 4, 4) ELSE <<>>]))
  /\ Judge("C03", P_C03(k, c, es, rs, img, ref),
           F("walk", [stop |-> IF k \in WalkKinds THEN Walk(k, img).stop ELSE 0,
                      found |-> IF k \in WalkKinds THEN Len(Walk(k, img).ents) ELSE 0, emitted |-> Len(img)]))
  /\ Judge("C04", img = ref, [l |-> l, run |-> E.run, kind |-> k, what |-> "image", n |-> Len(es),
                              op |-> IF E.ev = "op" THEN E.op.op ELSE E.ev,
                              at |-> DiffAt(ref, img), explen |-> Len(ref), gotlen |-> Len(img),
                              sig |-> k \o "/" \o Owner(k, c, es, rs, DiffAt(ref, img))])
  /\ Judge("C05", P_C05(k, es, rs, img), F("handles", [nrets |-> Len(rs)]))
  \* C18, accepted side: whatever is emitted has count and length fields that agree with the content
  /\ Judge("C18", P_C02(k, img) /\ P_C03(k, c, es, rs, img, ref), F("fields_disagree_with_content", [emitted |-> Len(img)]))
  /\ Judge("C12", P_C12(k, c, es, rs, img), F("matrix", [emitted |-> Len(img)]))
  \* an entry built with option calls and added to its table: the options govern bytes of the entry only -- the table
  \* around it (Length, checksum, counts, the other entries) is the reference image for that entry
  /\ Judge("C11", (Len(es) > 0 /\ es[Len(es)].op \in DOMAIN OpStruct /\ Len(CallsOf(es[Len(es)])) > 0) => img = ref,
           F("entry_options_reach_outside_entry", [at |-> DiffAt(ref, img), emitted |-> Len(img)]))
  /\ Judge("C11", (k \in OptKinds) => C11Flags(k, c, es, rs, img), F("flag_union", [emitted |-> Len(img)]))
  /\ Judge("C11", (k \in OptKinds /\ Len(es) > 0 /\ before # <<>>) => C11Frame(k, c, es, rs, before, img),
           F("frame", [changed |-> IF Len(before) = Len(img) THEN DiffPos(before, img) ELSE {}]))

\* images too large to ship verbatim: only the generic observations (length, byte sum, first 48 bytes)
JudgeBig(k) ==
  /\ Judge("C01", E.sum8 = 0, F("checksum_big", [sum |-> E.sum8]))
  /\ Judge("C02", Small(Slice(E.head, 4, 4)) /\ Val(Slice(E.head, 4, 4)) = E.len, F("length_big", [emitted |-> E.len]))

TNew ==
  /\ E.ev = "new"
  /\ kind' = E.kind /\ ctor' = E.ctor @@ FreeDefaults /\ ents' = <<>> /\ rets' = <<>> /\ dead' = E.panic
  /\ Judge("C18", ~E.panic => CtorFits(E.kind, E.ctor), F("oversize_constructor_not_refused", [z |-> 0]))
  /\ IF E.panic THEN prev' = <<>> /\ psum' = -1 /\ Judge("C04", ~CtorFits(E.kind, E.ctor), F("constructor_panicked", [z |-> 0]))
     ELSE IF Has(E, "big") THEN JudgeBig(kind') /\ prev' = <<>> /\ psum' = E.sum8
     ELSE prev' = E.img /\ psum' = Sum8(E.img) /\ JudgeImage(kind', ctor', <<>>, <<>>, E.img, <<>>, -1)

\* some accepted operation of the history exceeds a limit of the specification
AnyUnfit(k, c, es, rs) == \E i \in 1..Len(es) : es[i].op # "refused" /\ ~OpFits(k, c, SubSeq(es, 1, i - 1), rs, es[i])
Refused == [op |-> "refused"]       \* placeholder keeping operation indices aligned (references are by index)
TOp ==
  /\ E.ev = "op"
  /\ UNCHANGED <<kind, ctor>>
  /\ IF dead THEN UNCHANGED <<ents, rets, prev, psum, dead>>
     ELSE IF E.panic
     THEN LET fits == OpFits(kind, ctor, ents, rets, E.op) IN
          /\ ents' = Append(ents, Refused) /\ rets' = Append(rets, <<>>)
          /\ dead' = fits
          \* a refused operation yields no image: the caller's values did not land anywhere (C04); for the matrix
          \* operations it is also C12's "every in-range pair is accepted"
          \* (unless the specification itself refuses the operation: oversize counts, C18)
          /\ Judge("C04", ~fits, F("unexpected_panic", [z |-> 0]))
          /\ Judge("C12", ~(fits /\ E.op.op \in {"set_distance", "add_system_locality"}), F("unexpected_panic", [z |-> 0]))
          \* a refusal leaves the table exactly as it was: judged like any other observed state (the placeholder adds nothing)
          /\ IF fits \/ ~E.observed \/ Has(E, "big") \/ Has(E, "ser_panic") THEN prev' = <<>> /\ psum' = -1
             ELSE JudgeImage(kind, ctor, ents', rets', E.img, prev, psum) /\ prev' = E.img /\ psum' = Sum8(E.img)
     ELSE /\ ents' = Append(ents, E.op) /\ rets' = Append(rets, E.ret)
          /\ IF E.observed /\ Has(E, "ser_panic")
             \* the operation was accepted but the table can no longer be serialised: a refusal deferred to
             \* serialisation.  That is how an oversize operation may legitimately be refused (C18 asks for a panic,
             \* not for a particular moment); with every accepted operation within its limits it is a lost table.
             \* Either way the table stays unserialisable: the rest of the program says nothing.
             THEN /\ dead' = TRUE /\ prev' = <<>> /\ psum' = -1
                  /\ Judge("C04", AnyUnfit(kind, ctor, ents', rets'), F("unexpected_panic_on_serialise", [z |-> 0]))
             ELSE /\ dead' = FALSE
                  /\ Judge("C18", ~E.observed \/ OpFits(kind, ctor, ents, rets, E.op), F("oversize_not_refused", [z |-> 0]))
                  /\ IF ~E.observed THEN prev' = <<>> /\ psum' = -1
                     ELSE IF Has(E, "big") THEN JudgeBig(kind) /\ prev' = <<>> /\ psum' = E.sum8
                     ELSE JudgeImage(kind, ctor, ents', rets', E.img, prev, psum) /\ prev' = E.img /\ psum' = Sum8(E.img)

\* long histories ("summary" programs): only generic observations of the image, no abstract state needed --
\* C01 and C02 are predicates of the image alone; counts must equal the number of adds performed so far
CountAt == [RIMT |-> 36, HEST |-> 36, RQSC |-> 36, RHCT |-> 48]
TSum ==
  /\ E.ev = "sum"
  /\ UNCHANGED <<kind, ctor, ents, rets, prev, dead>>
  /\ psum' = E.sum8
  /\ LET FS(what, more) == [l |-> l, run |-> E.run, kind |-> E.kind, what |-> what, n |-> E.i, op |-> E.opname,
                            sig |-> E.kind \o "/" \o E.opname \o "/" \o what] @@ more IN
     \* VIOT node offsets are 16-bit: an add is refused exactly when the new node would start beyond 65535 (C18)
     /\ LET refuse == E.kind = "VIOT" /\ E.len_before > 65535 IN
        /\ Judge("C04", E.panic => refuse, FS("unexpected_panic", [z |-> 0]))
        /\ Judge("C18", refuse => E.panic, FS("oversize_not_refused", [before |-> E.len_before]))
        /\ Judge("C18", E.panic => E.len = E.len_before, FS("refusal_changed_table", [before |-> E.len_before, after |-> E.len]))
     /\ Judge("C01", E.sum8 = 0 \/ (psum > 0 /\ psum = E.sum8), FS("checksum_long_history", [sum |-> E.sum8]))
     /\ Judge("C02", Small(Slice(E.head, 4, 4)) /\ Val(Slice(E.head, 4, 4)) = E.len, FS("length_long_history", [emitted |-> E.len]))
     /\ Judge("C03", (E.kind \in DOMAIN CountAt /\ ~Has(E, "refusals")) => Slice(E.head, CountAt[E.kind], 4) = LE(E.i, 4), FS("count_long_history", [z |-> 0]))
     /\ Judge("C03", E.kind = "VIOT" => Slice(E.head, 36, 2) = LE(E.i - Get(E, "refusals", 0), 2), FS("count_long_history", [z |-> 0]))

TNext == l <= NRec /\ l' = l + 1 /\ (TNew \/ TOp \/ TSum)
TSpec == TInit /\ [][TNext]_tvars
Done == DoneMsg(l)
=============================================================================
