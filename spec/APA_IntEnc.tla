----------------------------- MODULE APA_IntEnc -----------------------------
(***************************************************************************)
(* AML integer constants over plain (unbounded) integers, typed for        *)
(* Apalache: for ALL 0 <= v < 2^32 the narrowest-prefix encoding decodes   *)
(* back to v and no narrower prefix could carry it.  Same arithmetic as    *)
(* AmlBase!IntEnc / IntDec on byte strings (which TLC checks on ranges and *)
(* samples; TLC integers are 32-bit, so only a symbolic tool quantifies    *)
(* over the whole dword domain).  The QWord case is two dwords: its        *)
(* payload is the dword of v % 2^32 followed by the dword of v \div 2^32,   *)
(* so its round trip is this theorem applied to each half.  Apalache does  *)
(* not finish on the 64-bit domain directly (non-linear div/mod: timed out *)
(* at 600 s, also when v is given as two halves), so that composition is   *)
(* checked by TLC on samples (MC_AmlBase, Trace_Aml) only.                 *)
(***************************************************************************)
EXTENDS Integers

VARIABLE
  \* @type: Int;
  v

Pow(n) == IF n = 8 THEN 256 ELSE IF n = 16 THEN 65536 ELSE IF n = 32 THEN 4294967296 ELSE 18446744073709551616
\* prefix opcode and payload width in bytes
Op(x) == IF x = 0 THEN 0 ELSE IF x = 1 THEN 1 ELSE IF x < Pow(8) THEN 10 ELSE IF x < Pow(16) THEN 11 ELSE IF x < Pow(32) THEN 12 ELSE 14
Width(op) == IF op = 10 THEN 1 ELSE IF op = 11 THEN 2 ELSE IF op = 12 THEN 4 ELSE IF op = 14 THEN 8 ELSE 0
\* i-th payload byte (0-based), little-endian
ByteOf(x, i) == (x \div (IF i = 0 THEN 1 ELSE IF i = 1 THEN 256 ELSE IF i = 2 THEN 65536 ELSE IF i = 3 THEN 16777216
                         ELSE IF i = 4 THEN 4294967296 ELSE IF i = 5 THEN 1099511627776 ELSE IF i = 6 THEN 281474976710656
                         ELSE 72057594037927936)) % 256
\* decoder: from the opcode and the payload bytes
Dec(op, b0, b1, b2, b3, b4, b5, b6, b7) ==
  IF op = 0 THEN 0 ELSE IF op = 1 THEN 1
  ELSE b0 + (IF Width(op) >= 2 THEN 256 * b1 ELSE 0)
          + (IF Width(op) >= 4 THEN 65536 * b2 + 16777216 * b3 ELSE 0)
          + (IF Width(op) >= 8 THEN 4294967296 * b4 + 1099511627776 * b5 + 281474976710656 * b6 + 72057594037927936 * b7 ELSE 0)

Init == v \in Nat /\ v < Pow(32)
Next == UNCHANGED v
Inv ==
  /\ Dec(Op(v), ByteOf(v, 0), ByteOf(v, 1), ByteOf(v, 2), ByteOf(v, 3), ByteOf(v, 4), ByteOf(v, 5), ByteOf(v, 6), ByteOf(v, 7)) = v
  /\ (Width(Op(v)) > 0 => v < Pow(8 * Width(Op(v))))                       \* the value fits the chosen width
  /\ (Width(Op(v)) = 2 => v >= Pow(8)) /\ (Width(Op(v)) = 4 => v >= Pow(16)) /\ (Width(Op(v)) = 8 => v >= Pow(32))   \* and no narrower one
  /\ (Width(Op(v)) = 1 => v >= 2)                                            \* 0 and 1 have their own opcodes
=============================================================================
