SPECIFICATION Spec
INVARIANT InvPkgExcl
CHECK_DEADLOCK FALSE
