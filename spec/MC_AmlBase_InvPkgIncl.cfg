SPECIFICATION Spec
INVARIANTS InvPkgIncl InvApaAgrees
CHECK_DEADLOCK FALSE
