SPECIFICATION Spec
INVARIANT InvPkgIncl
CHECK_DEADLOCK FALSE
