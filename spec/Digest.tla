------------------------------- MODULE Digest -------------------------------
(***************************************************************************)
(* Exhaustive sweeps of big finite domains (C07: 2^28 lengths, C08: 2^32   *)
(* integers, C16: 26^3*16^4 EISA ids).  The domain is cut into chunks; for *)
(* each chunk the harness computes three position-weighted modular digests *)
(* of the REAL encoder's outputs (a generic observation function: it knows *)
(* nothing of ACPI), and this module computes the same digests of the      *)
(* SPECIFICATION's encoder; the trace judge compares.  All products stay   *)
(* below 2^31.                                                             *)
(***************************************************************************)
EXTENDS AmlBase

P1 == 32749
P2 == 32719
P3 == 32713
H1(out) == FoldLeft(LAMBDA a, j : (a + j * out[j]) % P1, (31 * Len(out)) % P1, [j \in 1..Len(out) |-> j])
H2(out) == FoldLeft(LAMBDA a, j : (a + (2 * j + 1) * out[j]) % P2, (17 * Len(out)) % P2, [j \in 1..Len(out) |-> j])
\* digests of the outputs Out(k), k = 0..n-1
DigestOf(Out(_), n) ==
  LET step(acc, k) == LET o == Out(k) h1 == H1(o) h2 == H2(o) IN
                      <<(acc[1] + ((k % 251) + 1) * h1) % P1, (acc[2] + ((k % 241) + 1) * h2) % P2, (acc[3] + ((h1 * h2) % P3)) % P3>>
  IN FoldLeft(step, <<0, 0, 0>>, [i \in 1..n |-> i - 1])

\* the specification's outputs for each kind of sweep; base identifies the chunk
SpecOut(what, base, k) ==
  CASE what = "pkglen_incl" -> PkgIncl(base + k)
    [] what = "pkglen_excl" -> PkgBytes(base + k, MinK(base + k))
    [] what = "u32" -> IntEnc(LE(k, 2) \o LE(base, 2) \o Zeros(4))            \* value = base * 65536 + k
    [] what = "eisa" ->                                                        \* base = letters index, k = digits value
         LET s == <<65 + (base \div 676), 65 + ((base \div 26) % 26), 65 + (base % 26),
                    HexChar((k \div 4096) % 16), HexChar((k \div 256) % 16), HexChar((k \div 16) % 16), HexChar(k % 16)>>
         IN IntEnc(W(EisaCompress(s), 8))
SpecDigest(what, base, n) == DigestOf(LAMBDA k : SpecOut(what, base, k), n)
=============================================================================
