SPECIFICATION Spec
CONSTANTS
  Depth = 2
  FillTo = 0
  CountBug = FALSE
  DiagBug = FALSE
INVARIANTS InvMech InvC01 InvC02 InvC03 InvC05 InvC12 EmitInv
CHECK_DEADLOCK FALSE
