------------------------------- MODULE MC_Sdt -------------------------------
(* Bounded model of Sdt.tla: all operation sequences up to Depth over typed  *)
(* and slice appends, typed and slice writes at a set of critical offsets    *)
(* (header start, Length field, checksum byte and its neighbours, last valid *)
(* position, first refused position), and sink pushes.  The history is the   *)
(* state; leaves are printed as REPLAY programs for the harness.             *)
EXTENDS Sdt, TLC, Json

CONSTANTS Depth, InitLens, Widths, OffsetSet, Emit
VARIABLES hist, lastAppend
vars == <<data, ghost, hist, lastAppend>>

Hdr == Header36(<<84, 69, 83, 84>>, <<0, 0, 0, 0>>, 1, <<1, 2, 3, 4, 5, 6>>, <<11, 12, 13, 14, 15, 16, 17, 18>>,
                <<239, 190, 173, 222>>, <<82, 86, 65, 84>>, <<0, 0, 0, 1>>)
HdrFor(n) == Patch(Hdr, 4, LE(n, 4))

\* value patterns: distinguishable bytes, and 255s (carry into the checksum)
Val1(w, salt) == [i \in 1..w |-> (37 * i + salt) % 256]
Vals(w) == {Val1(w, 3), Fill(w, 255)}
SliceVals == {<<>>, <<7>>, <<200, 100, 50>>}

Offsets(d) == {o \in OffsetSet : o < Len(d)} \cup {Len(d) - 1, Len(d) - 2, Len(d) - 4, Len(d) - 8, Len(d) - 7, Len(d)}

InitU == \E n \in InitLens : /\ ghost = NewData(HdrFor(n), n) /\ data = FixCk(NewData(HdrFor(n), n))
                             /\ hist = <<[op |-> "new", n |-> n]>> /\ lastAppend = FALSE

H(r) == hist' = Append(hist, r)

Next == /\ Len(hist) <= Depth
        /\ \/ \E w \in Widths : \E v \in Vals(w) : SdtAppend(v) /\ H([op |-> "append", w |-> w, v |-> v]) /\ lastAppend' = TRUE
           \/ \E s \in SliceVals : SdtAppend(s) /\ H([op |-> "append_slice", v |-> s]) /\ lastAppend' = TRUE
           \/ \E w \in Widths : \E v \in Vals(w), o \in Offsets(data) :
                /\ (SdtWrite(o, v) \/ SdtWriteRefused(o, v))
                /\ H([op |-> "write", w |-> w, v |-> v, off |-> o]) /\ lastAppend' = FALSE
           \/ \E s \in SliceVals, o \in Offsets(data) :
                /\ (SdtWrite(o, s) \/ SdtWriteRefused(o, s))
                /\ H([op |-> "write_bytes", v |-> s, off |-> o]) /\ lastAppend' = FALSE
           \/ \E w \in Widths : LET v == Val1(w, 9) IN
                SdtSink(v) /\ H([op |-> "sink", w |-> w, v |-> v]) /\ lastAppend' = TRUE
           \/ SdtSink(<<1, 255, 3>>) /\ H([op |-> "sink_vec", v |-> <<1, 255, 3>>]) /\ lastAppend' = TRUE

Spec == InitU /\ [][Next]_vars

InvRefines == Refines /\ SameLength
InvSum == SumsToZero
InvLenAfterAppend == lastAppend => LengthFieldAfterAppend(data)
\* the step-by-step code path of a typed append equals the composed action, from every reachable state
InvAppendComposition == Len(hist) <= Depth => \A w \in Widths : \A v \in Vals(w) : AppendBySteps(data, v) = FixCk(GrowPlain(data, v))
\* pushing bytes through the sink equals appending them as a slice
InvSinkIsAppend == Len(hist) <= Depth => \A w \in Widths : SinkNext(data, Val1(w, 9)) = FixCk(GrowPlain(data, Val1(w, 9)))

EmitInv == (Emit /\ Len(hist) = Depth + 1) => PrintT("REPLAY " \o ToJson([fam |-> "sdt", ops |-> hist]))
=============================================================================
