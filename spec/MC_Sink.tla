------------------------------- MODULE MC_Sink -------------------------------
(* Bounded model of Sink.tla: every way of delivering a byte string of up to *)
(* MaxLen bytes over a small alphabet through the five entry points yields   *)
(* that string (the target is chosen first; the calls chunk it arbitrarily). *)
EXTENDS Sink, TLC

CONSTANTS Alphabet, MaxLen
VARIABLES target, calls
vars == <<out, target, calls>>
\* one distinguishable target per length (the chunking is what is explored, not the content) plus the constant strings
Strings == {[i \in 1..n |-> (37 * i) % 256] : n \in 0..MaxLen} \cup {[i \in 1..n |-> a] : n \in {1, 8}, a \in Alphabet}
Init == SinkInit /\ target \in Strings /\ calls = <<>>
Rest == SubSeq(target, Len(out) + 1, Len(target))
Take(n) == SubSeq(Rest, 1, n)
Next == /\ Len(out) < Len(target)
        /\ \/ SByte(Rest[1]) /\ calls' = Append(calls, [m |-> "byte", d |-> Take(1)])
           \/ Len(Rest) >= 2 /\ SWord(Take(2)) /\ calls' = Append(calls, [m |-> "word", d |-> Take(2)])
           \/ Len(Rest) >= 4 /\ SDWord(Take(4)) /\ calls' = Append(calls, [m |-> "dword", d |-> Take(4)])
           \/ Len(Rest) >= 8 /\ SQWord(Take(8)) /\ calls' = Append(calls, [m |-> "qword", d |-> Take(8)])
           \/ \E n \in {0, 1, 3, 5} : n <= Len(Rest) /\ SVec(Take(n)) /\ calls' = Append(calls, [m |-> "vec", d |-> Take(n)])
                                   /\ (n > 0 \/ calls = <<>>)
        /\ UNCHANGED target
Spec == Init /\ [][Next]_vars
InvStream == Stream(calls) = out /\ \A i \in 1..Len(calls) : CallOk(calls[i])
InvPrefix == out = SubSeq(target, 1, Len(out))
InvDone == Len(out) = Len(target) => out = target
=============================================================================
