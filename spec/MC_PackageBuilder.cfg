SPECIFICATION Spec
CONSTANT Depth = 4
INVARIANTS InvFramed InvCount InvAsPackage EmitInv
CHECK_DEADLOCK FALSE
