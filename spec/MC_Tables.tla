------------------------------ MODULE MC_Tables ------------------------------
(***************************************************************************)
(* Bounded model of the table builders WITH the mechanism a correct        *)
(* implementation maintains incrementally next to the abstract state:      *)
(*    mlen   header Length            msum   running byte sum (mod 256)    *)
(*    mcnt   entry / node count       moff   offset of the next node       *)
(* updated per operation the way the builders do it (delete the old length *)
(* bytes from the sum, append the new ones, append the entry's bytes,      *)
(* replace the count bytes; handles are the offset before the add).        *)
(* The invariants say that the image assembled from the mechanism equals   *)
(* the specification's image and satisfies C01, C02, C03, C05, C12 -- so   *)
(* they are theorems about the design, not restatements of it: e.g.        *)
(* CountBug = TRUE accounts a count increment as "+1" (what RIMT/VIOT/HEST *)
(* do in the crate) and TLC refutes InvC01 at the 256th entry.             *)
(* The operation menu comes from JSON (IOEnv.MENU, written by the driver   *)
(* from bin/schema.py); every leaf history is printed as a REPLAY line and *)
(* executed on the real crate.                                             *)
(***************************************************************************)
EXTENDS Judges, TLC, Json, IOUtils

CONSTANTS Depth, FillTo, CountBug, DiagBug
MenuData == JsonDeserialize(IOEnv.MENU)
Kinds == IF "KINDS" \in DOMAIN IOEnv /\ IOEnv.KINDS # "" THEN {IOEnv.KINDS} ELSE DOMAIN MenuData.menus
MenuOf(k) == MenuData.menus[k]
CtorOf(k) == MenuData.ctors[k] @@ [rev |-> <<1>>, minor |-> <<5>>, facs_version |-> <<1>>, tcg_rev |-> <<1, 2>>,
                                   creator_id |-> <<82, 86, 65, 84>>, creator_rev |-> <<0, 0, 0, 1>>]

VARIABLES kind, ctor, ents, rets, path, mlen, msum, mcnt, moff
vars == <<kind, ctor, ents, rets, path, mlen, msum, mcnt, moff>>

CountWidth == [RHCT |-> 4, RIMT |-> 4, VIOT |-> 2, HEST |-> 4, RQSC |-> 4]
Raw0(k, c) == LayBytes(TblLay(k, c, <<>>, <<>>))
\* what the constructor accounts: every byte of the initial image with its real Length and a zero checksum
InitSum(k, c) == LET r == Raw0(k, c) IN
  Sum8(IF k = "RSDP" THEN r ELSE Patch(r, IF k = "FACS" THEN 4 ELSE 4, LE(Len(r), 4)))

Init == \E k \in Kinds :
  /\ kind = k /\ ctor = CtorOf(k) /\ ents = <<>> /\ rets = <<>> /\ path = <<>>
  /\ mlen = Len(Raw0(k, CtorOf(k))) /\ msum = InitSum(k, CtorOf(k)) /\ mcnt = 0
  /\ moff = IF k \in BodyKinds THEN FirstEntryOff[k] ELSE 0

\* references of a menu entry must name earlier operations that returned a handle of the right node type
RefsValid(e, es) ==
  \A q \in 1..Len(RefItems(e)) : LET it == RefItems(e)[q] IN
    it.ref # 0 => /\ it.ref <= Len(es) /\ es[it.ref].op \in DOMAIN HandleType /\ HandleType[es[it.ref].op] \in it.ty
Enabled(e) == /\ RefsValid(e, ents)
              /\ (e.op = "add_imsic" => ~HasOp(ents, "add_imsic"))
              /\ (e.op = "set_log_area" => ~HasOp(ents, "set_log_area"))

\* mechanism step for an added entry with bytes b
AddStep(b) ==
  /\ mlen' = mlen + Len(b)
  /\ moff' = moff + Len(b)
  /\ mcnt' = mcnt + 1
  /\ LET s1 == AppendNext(AppendNext(DeleteNext(msum, LE(mlen, 4)), LE(mlen + Len(b), 4)), b) IN
     msum' = IF kind \in DOMAIN CountWidth
             THEN (IF CountBug THEN AddNext(s1, 1)
                   ELSE AppendNext(DeleteNext(s1, LE(mcnt, CountWidth[kind])), LE(mcnt + 1, CountWidth[kind])))
             ELSE s1

\* the same step over plain integers as APA_CkDelta.tla states it (Apalache proves that one inductive for all Lengths
\* and counts); the two transcriptions agree on samples around every byte boundary
ApaS4(x) == LET b == LE(x, 4) IN b[1] + b[2] + b[3] + b[4]
ApaStep(ms, ml, n, b, mc) == (ms + 2048 - ApaS4(ml) + ApaS4(ml + n) + b - ApaS4(mc) + ApaS4(mc + 1)) % 256
MechStep(ms, ml, n, b, mc) ==
  LET s1 == AddNext(AppendNext(DeleteNext(ms, LE(ml, 4)), LE(ml + n, 4)), b)
  IN AppendNext(DeleteNext(s1, LE(mc, 4)), LE(mc + 1, 4))
ASSUME \A ml \in {36, 200, 255, 256, 65280, 65535, 65536, 16777215} : \A n \in {1, 8, 56, 255, 256, 65535} :
         \A b \in {0, 7, 255} : \A mc \in {0, 1, 254, 255, 256, 65535, 65536, 16777215} : \A ms \in {0, 1, 128, 255} :
           ApaStep(ms, ml, n, b, mc) = MechStep(ms, ml, n, b, mc)

\* SLIT: replace the two mirrored cells (one cell when a = b)
SlitStep(e) ==
  LET n == ctor.n
      old1 == SlitCell(ents, e.a.a, e.a.b)
      v == e.a.v[1]
      twice == DiagBug \/ e.a.a # e.a.b
  IN /\ msum' = IF twice THEN AddNext(AddNext(SubNext(SubNext(msum, old1), old1), v), v)
                         ELSE AddNext(SubNext(msum, old1), v)
     /\ UNCHANGED <<mlen, moff, mcnt>>

Tpm2Step(e) ==
  /\ mlen' = mlen + 24
  /\ msum' = AppendNext(AppendNext(AppendNext(DeleteNext(msum, LE(mlen, 4)), LE(mlen + 24, 4)), e.a.min_len), e.a.base)
  /\ UNCHANGED <<moff, mcnt>>

\* whole-table option builders recompute the sum from scratch after every call
RecomputeStep(es) ==
  LET r == LayBytes(TblLay(kind, ctor, es, rets)) IN
  /\ msum' = Sum8(Patch(r, 4, LE(Len(r), 4))) /\ mlen' = Len(r) /\ UNCHANGED <<moff, mcnt>>

Do(i) ==
  LET e == MenuOf(kind)[i] IN
  /\ Enabled(e)
  /\ ents' = Append(ents, e) /\ path' = Append(path, i)
  /\ rets' = Append(rets, IF ReturnsHandleE(e) THEN LE(moff, 4) ELSE <<>>)
  /\ UNCHANGED <<kind, ctor>>
  /\ IF IsAdd(e) THEN AddStep(EntryBytes(e, rets))
     ELSE IF e.op = "set_distance" THEN SlitStep(e)
     ELSE IF e.op = "set_log_area" THEN Tpm2Step(e)
     ELSE RecomputeStep(Append(ents, e))

\* filler for the long boundary histories: the first menu entry that needs no earlier handle
Filler(k) == CHOOSE i \in 1..Len(MenuOf(k)) : /\ RefsValid(MenuOf(k)[i], <<>>) /\ MenuOf(k)[i].op # "add_imsic"
                                               /\ \A j \in 1..(i - 1) : ~RefsValid(MenuOf(k)[j], <<>>) \/ MenuOf(k)[j].op = "add_imsic"
Next == /\ Len(ents) < Depth
        /\ \E i \in 1..Len(MenuOf(kind)) :
             /\ (Len(ents) < FillTo => i = Filler(kind))
             \* after a long fill only two alternatives per step (the images are large; the branching is not the point)
             /\ (FillTo > 0 /\ Len(ents) >= FillTo => i \in {Filler(kind), Filler(kind) + 1})
             /\ Do(i)
Spec == Init /\ [][Next]_vars

---------------------------------------------------------------------------
\* the image a builder assembles from its mechanism variables
MechImage ==
  LET r == LayBytes(TblLay(kind, ctor, ents, rets)) IN
  IF kind = "FACS" THEN Patch(r, 4, LE(mlen, 4))
  ELSE IF kind = "RSDP" THEN TblImage(kind, ctor, ents, rets)
  ELSE Patch(Patch(r, 4, LE(mlen, 4)), 9, <<Value(msum)>>)
SpecImage == TblImage(kind, ctor, ents, rets)

InvMech == MechImage = SpecImage
InvC01 == P_C01(kind, MechImage)
InvC02 == P_C02(kind, MechImage) /\ (kind # "RSDP" => mlen = Len(MechImage))
InvC03 == /\ P_C03(kind, ctor, ents, rets, SpecImage, SpecImage)
          /\ kind \in WalkKinds => LET w == Walk(kind, SpecImage) IN
               Len(w.ents) = NAdds(ents) /\ Offsets(w) = EntryOffsets(kind, ents, rets)
InvC05 == P_C05(kind, ents, rets, SpecImage) /\ (kind \in BodyKinds => moff = Len(SpecImage))
InvC12 == P_C12(kind, ctor, ents, rets, SpecImage)
\* the same three facts with the images computed once (used by the long boundary runs)
InvBoundary == LET m == MechImage sp == SpecImage IN m = sp /\ P_C01(kind, m) /\ P_C02(kind, m) /\ mlen = Len(m)
\* distinct option sets of the two whole-table builders give distinct images (C11: options are distinguishable)
Leaf == Len(ents) = Depth \/ \A i \in 1..Len(MenuOf(kind)) : ~ENABLED Do(i)
EmitInv == (Len(ents) = Depth \/ MenuOf(kind) = <<>> \/ (kind = "TPM2" /\ Len(ents) = 1))
           => PrintT("REPLAY " \o ToJson([kind |-> kind, path |-> path]))
=============================================================================
