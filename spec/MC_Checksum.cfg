SPECIFICATION Spec
CONSTANTS
  RefMod = 1024
  SliceAlphabet = {0, 1, 128, 255}
  MaxSlice = 3
  EmitDepth = 1000000
VIEW View
INVARIANTS InvFaithful InvComplement InvSliceInverse InvSliceIsBytes
CHECK_DEADLOCK FALSE
