------------------------------- MODULE Options -------------------------------
(***************************************************************************)
(* C11 over the option-bearing structures of Layouts.tla.  A structure is  *)
(* a state machine (SInit / SCall / SLay); its flag and attribute fields   *)
(* are the chunks named in FlagNames.  The predicates:                     *)
(*   FlagUnion   every flag chunk of an image equals the union of what the *)
(*               invoked options contribute individually (any order, any   *)
(*               repetition), plus what the constructor contributed;       *)
(*   Frame       a call changes only the chunks it governs (= the chunks   *)
(*               whose reference value it changes); compared chunk by      *)
(*               chunk so that calls that grow a list are handled too.     *)
(***************************************************************************)
EXTENDS Layouts

FlagNames == {"flags", "restr", "attrs", "dev_flags", "int_flags", "handle_type"}

\* image chunks after the first k calls of e
LayK(st, e, R, k) == SLay(st, SStateK(st, e, R, k))

\* what one call contributes to a flag chunk on its own (from the freshly constructed structure)
FlagBits(lay, name) == BitSet(ChunkOf(lay, name).b)
Contribution(st, e, R, c, name) ==
  FlagBits(SLay(st, SCall(st, SInit(st, e.a, R), c, R)), name) \ FlagBits(SLay(st, SInit(st, e.a, R)), name)
UnionBits(st, e, R, k, name) ==
  FlagBits(SLay(st, SInit(st, e.a, R)), name)
    \cup UNION {Contribution(st, e, R, CallsOf(e)[j], name) : j \in 1..k}

\* specification-level theorem (checked by TLC in MC_Options): flags are the union of individual contributions
SpecUnion(st, e, R, k) ==
  LET lay == LayK(st, e, R, k) IN
  \A i \in 1..Len(lay) : lay[i].n \in FlagNames => BitSet(lay[i].b) = UnionBits(st, e, R, k, lay[i].n)

\* judges on an observed image
ObsFlagUnion(st, e, R, k, img) ==
  LET lay == LayK(st, e, R, k) IN
  \A i \in 1..Len(lay) : lay[i].n \in FlagNames =>
     LET off == ChunkOff(lay, i) w == Len(lay[i].b) IN
     off + w <= Len(img) /\ BitSet(Slice(img, off, w)) = UnionBits(st, e, R, k, lay[i].n)

ObsFrame(st, e, R, k, before, img) ==
  LET layA == LayK(st, e, R, k - 1) layB == LayK(st, e, R, k) IN
  /\ Len(layA) = Len(layB)
  /\ Len(img) - Len(before) = LayLen(layB) - LayLen(layA)
  /\ \A i \in 1..Len(layB) :
       layA[i].b = layB[i].b =>
         LET oa == ChunkOff(layA, i) ob == ChunkOff(layB, i) w == Len(layB[i].b) IN
         (oa + w <= Len(before) /\ ob + w <= Len(img)) => Slice(before, oa, w) = Slice(img, ob, w)
=============================================================================
