SPECIFICATION Spec
CONSTANTS
  RefMod = 16777216
  SliceAlphabet = {0, 1, 2, 127, 128, 200, 254, 255}
  MaxSlice = 3
  EmitDepth = 24
INVARIANTS InvFaithful InvComplement EmitInv
CHECK_DEADLOCK FALSE
