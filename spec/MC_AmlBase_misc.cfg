SPECIFICATION Spec
INVARIANTS InvIntWide InvName InvParse InvEisa InvUuid
CHECK_DEADLOCK FALSE
