----------------------------- MODULE CkAlgebra -----------------------------
(* The pure step functions of the mod-256 checksum accumulator (shared by   *)
(* Checksum.tla, which wraps them in a state machine, and by the table      *)
(* models, whose builders maintain a running sum with them).                *)
EXTENDS Bytes

AddNext(a, b) == (a + b) % 256
SubNext(a, b) == (a + 256 - b) % 256
\* slice operations: one wrapping step per byte, in order
AppendNext(a, s) == FoldLeft(AddNext, a, s)
DeleteNext(a, s) == FoldLeft(SubNext, a, s)
PlainSum(s) == FoldLeft(LAMBDA x, y : x + y, 0, s)    \* |s| * 255 < 2^31
\* the reported checksum
Value(a) == (256 - a) % 256
=============================================================================
