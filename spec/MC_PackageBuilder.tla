-------------------------- MODULE MC_PackageBuilder --------------------------
(* All sequences up to Depth of add_element (over a menu of element encodings) *)
(* and direct sink pushes.  Invariants: the image is a well-framed package     *)
(* whose element count is the number of add_element calls and whose payload    *)
(* is the concatenation of everything delivered; equal to the package built    *)
(* from the list of the same elements when nothing was pushed directly (C15).  *)
EXTENDS PackageBuilder, TLC, Json

CONSTANTS Depth
VARIABLES hist, direct
vars == <<data, elements, hist, direct>>
\* element encodings: ZeroOp, a byte constant, a string, a nested empty package, a 60-byte buffer (crosses 63/64)
Menu == <<<<0>>, <<10, 200>>, <<13, 72, 105, 0>>, <<18, 2, 0>>, <<17, 63, 10, 60>> \o Zeros(60)>>
Pushes == <<<<>>, <<7>>, <<1, 2, 3, 4, 5, 6, 7, 8>>>>
Init == PbInit /\ hist = <<>> /\ direct = FALSE
Next == /\ Len(hist) < Depth
        /\ \/ \E i \in 1..Len(Menu) : PbAddElement(Menu[i]) /\ hist' = Append(hist, [op |-> "add", i |-> i]) /\ UNCHANGED direct
           \/ \E j \in 1..Len(Pushes) : PbSink(Pushes[j]) /\ hist' = Append(hist, [op |-> "push", i |-> j]) /\ direct' = TRUE
Spec == Init /\ [][Next]_vars

Img == PbImage(data, elements)
InvFramed == LET d == PkgDec(Img, 1) IN Img[1] = 18 /\ d.ok /\ d.v = Len(Img) - 1 /\ d.k = InclK(Len(Img) - 1 - d.k)
                                         /\ Img[1 + d.k + 1] = elements /\ From(Img, 1 + d.k + 1) = data
InvCount == elements = Len(SelectSeq(hist, LAMBDA h : h.op = "add"))
\* C15 on the specification: equal to Package::new over the same element list
InvAsPackage == ~direct => Img = <<18>> \o PkgIncl(1 + Len(data)) \o <<Len(hist)>> \o
                                 FoldLeft(LAMBDA acc, h : acc \o Menu[h.i], <<>>, hist)
EmitInv == Len(hist) = Depth => PrintT("REPLAY " \o ToJson([fam |-> "pb", ops |-> hist]))
=============================================================================
