---------------------------- MODULE APA_CkDelta ----------------------------
(***************************************************************************)
(* The incremental header maintenance of the table builders (MC_Tables!    *)
(* AddStep) over plain integers, typed for Apalache: an INDUCTIVE argument *)
(* that the running sum stays equal to the byte sum of the image for ALL   *)
(* Lengths, counts and entries -- MC_Tables establishes it by enumeration  *)
(* to a depth bound and across the 255 -> 256 entry boundary only.         *)
(*                                                                         *)
(* Abstract state: mlen (header Length), mcnt (entry count), body (byte    *)
(* sum of all entries mod 256), rest (byte sum of every other header byte, *)
(* constant), msum (the accumulator the builder keeps).  Adding an entry   *)
(* of n bytes with byte sum b: delete the old Length bytes, append the new *)
(* ones, append the entry, replace the count bytes.                        *)
(* With CountBug = TRUE the count increment is accounted as "+1" (what     *)
(* RIMT/VIOT/HEST did before commit a59d91d): Apalache then reports the    *)
(* counterexample (count low byte 255), so the theorem is not vacuous.     *)
(***************************************************************************)
EXTENDS Integers

CONSTANT
  \* @type: Bool;
  CountBug

VARIABLES
  \* @type: Int;
  mlen,
  \* @type: Int;
  mcnt,
  \* @type: Int;
  body,
  \* @type: Int;
  rest,
  \* @type: Int;
  msum

P32 == 4294967296
B(x, i) == (x \div (IF i = 0 THEN 1 ELSE IF i = 1 THEN 256 ELSE IF i = 2 THEN 65536 ELSE 16777216)) % 256
S4(x) == B(x, 0) + B(x, 1) + B(x, 2) + B(x, 3)                  \* byte sum of a little-endian dword
ImageSum == (rest + S4(mlen) + S4(mcnt) + body) % 256

ConstOk == CountBug = FALSE
ConstBug == CountBug = TRUE
IndInv ==
  /\ mlen \in Nat /\ mlen < P32 /\ mcnt \in Nat /\ mcnt < P32
  /\ body \in 0..255 /\ rest \in 0..255 /\ msum \in 0..255
  /\ msum = ImageSum
Init == IndInv
Next ==
  \E n \in 1..65535, b \in 0..255 :
    /\ mlen + n < P32 /\ mcnt + 1 < P32
    /\ mlen' = mlen + n /\ mcnt' = mcnt + 1 /\ body' = (body + b) % 256 /\ rest' = rest
    /\ msum' = LET s1 == msum + 2048 - S4(mlen) + S4(mlen + n) + b IN
               IF CountBug THEN (s1 + 1) % 256
               ELSE (s1 - S4(mcnt) + S4(mcnt + 1)) % 256
=============================================================================
