--------------------------- MODULE Trace_Checksum ---------------------------
(* Implementation -> specification for C17: every recorded call on the real *)
(* accumulator must be a step of Checksum.tla from the previously observed  *)
(* state, and the observed raw value / checksum must be the ones the        *)
(* specification computes.                                                  *)
EXTENDS Checksum, TraceCommon

VARIABLE l
tvars == <<acc, ref, l>>

TInit == acc = 0 /\ ref = 0 /\ l = 1

E == Rec[l]
Info(what, exp) == [l |-> l, ev |-> E.ev, what |-> what, exp |-> exp, got |-> E.raw, gotv |-> E.value,
                    run |-> Get(E, "run", -1)]

\* one spec step from the previously *observed* state; acc' resynchronises on the observation
Step(nextAcc, nextRef) ==
  /\ Judge("C17", E.panic = FALSE, Info("panic", nextAcc))
  /\ Judge("C17", E.raw = nextAcc, Info("raw_vs_step", nextAcc))
  /\ Judge("C17", E.raw = nextRef % 256, Info("raw_vs_wide_reference", nextRef % 256))
  /\ Judge("C17", E.value = Value(E.raw) /\ (E.raw + E.value) % 256 = 0, Info("value", Value(E.raw)))
  /\ acc' = E.raw
  /\ ref' = IF E.raw = nextRef % 256 THEN nextRef ELSE E.raw

TReset == E.ev = "reset" /\ Step(0, 0)
TAdd == E.ev = "add" /\ Step(AddNext(acc, E.arg[1]), Norm(ref + E.arg[1]))
TSub == E.ev = "sub" /\ Step(SubNext(acc, E.arg[1]), Norm(ref - E.arg[1]))
TAppend == E.ev \in {"append", "sink_byte", "sink_word", "sink_dword", "sink_qword", "sink_vec"}
           /\ (E.ev = "sink_byte" => Len(E.arg) = 1) /\ (E.ev = "sink_word" => Len(E.arg) = 2)
           /\ (E.ev = "sink_dword" => Len(E.arg) = 4) /\ (E.ev = "sink_qword" => Len(E.arg) = 8)
           /\ Step(AppendNext(acc, E.arg), Norm(ref + PlainSum(E.arg)))
TDelete == E.ev = "delete" /\ Step(DeleteNext(acc, E.arg), Norm(ref - PlainSum(E.arg)))
\* a slice of E.n equal bytes E.b (too long to log): the sum of the slice in closed form, factor by factor below 2^31
FillSum256 == ((E.n % 256) * E.b) % 256
\* (n mod RefMod) * b mod RefMod without leaving 31 bits (RefMod = 2^24 here: n mod RefMod = h * 2^16 + w)
FillSumRef == LET a == E.n % RefMod w == a % 65536 h == a \div 65536
              IN (w * E.b + ((h * E.b) % (RefMod \div 65536)) * 65536) % RefMod
TFill == \/ E.ev \in {"append_fill", "sink_vec_fill"} /\ Step((acc + FillSum256) % 256, Norm(ref + FillSumRef))
         \/ E.ev = "delete_fill" /\ Step((acc + 256 - FillSum256) % 256, Norm(ref - FillSumRef))

\* a slice in two uniform parts, ka MiB + ra bytes of a then kb MiB + rb bytes of b (possibly longer than 2^32 bytes):
\* 2^20 = 0 (mod 256), and (mod RefMod = 2^24) k MiB of a contribute ((k * a) mod 16) * 2^20
Two256 == (E.ra * E.a + E.rb * E.b) % 256
TwoRef == (E.ra * E.a + E.rb * E.b + (((E.ka % 16) * E.a + (E.kb % 16) * E.b) % 16) * 1048576) % RefMod
TTwo == \/ E.ev = "append_two" /\ Step((acc + Two256) % 256, Norm(ref + TwoRef))
        \/ E.ev = "delete_two" /\ Step((acc + 256 - Two256) % 256, Norm(ref - TwoRef))

\* the complete single-byte transition table from one state, recorded as one event
TTable ==
  /\ E.ev \in {"add_all", "sub_all"}
  /\ Judge("C17", \A b \in Byte :
              /\ E.raws[b + 1] = (IF E.ev = "add_all" THEN AddNext(E.s, b) ELSE SubNext(E.s, b))
              /\ E.values[b + 1] = Value(E.raws[b + 1])
              /\ E.backs[b + 1] = E.s,      \* inverse operation restores the state exactly
           [l |-> l, ev |-> E.ev, what |-> "transition_table", s |-> E.s, run |-> Get(E, "run", -1)])
  /\ UNCHANGED <<acc, ref>>

TNext == l <= NRec /\ l' = l + 1 /\ (TReset \/ TAdd \/ TSub \/ TAppend \/ TDelete \/ TFill \/ TTwo \/ TTable)
TSpec == TInit /\ [][TNext]_tvars
Done == DoneMsg(l)
=============================================================================
