SPECIFICATION Spec
CONSTANTS
  Depth = 40
  InitLens = {36, 39, 44, 100}
  Widths = {1, 2, 4, 8}
  OffsetSet = {0, 3, 4, 7, 8, 9, 10, 35}
  Emit = TRUE
INVARIANTS InvRefines InvSum InvLenAfterAppend EmitInv
CHECK_DEADLOCK FALSE
