----------------------------- MODULE APA_PkgLen -----------------------------
(***************************************************************************)
(* The self-inclusive PkgLength encoding over plain integers, typed for    *)
(* Apalache, which discharges the round-trip / lead-byte / minimality      *)
(* theorem for ALL 0 <= n with n + 4 < 2^28 symbolically (SMT), where TLC  *)
(* enumerates ranges.  K/B0..B3 are the same arithmetic as                 *)
(* AmlBase!InclK / AmlBase!PkgBytes (MC_AmlBase checks that the two        *)
(* transcriptions agree on the ranges it enumerates: InvApaAgrees).        *)
(***************************************************************************)
EXTENDS Integers

VARIABLE
  \* @type: Int;
  n

Max(k) == IF k = 1 THEN 63 ELSE IF k = 2 THEN 4095 ELSE IF k = 3 THEN 1048575 ELSE 268435455
K(x) == IF x + 1 <= 63 THEN 1 ELSE IF x + 2 <= 4095 THEN 2 ELSE IF x + 3 <= 1048575 THEN 3 ELSE 4
V(x) == x + K(x)
B0(x) == IF K(x) = 1 THEN V(x) ELSE (K(x) - 1) * 64 + (V(x) % 16)
B1(x) == (V(x) \div 16) % 256
B2(x) == (V(x) \div 4096) % 256
B3(x) == (V(x) \div 1048576) % 256

\* the decoder of ACPI 20.2.4 on the four bytes
Follow(b0) == b0 \div 64
Dec(b0, b1, b2, b3) ==
  IF Follow(b0) = 0 THEN b0 % 64
  ELSE (b0 % 16) + 16 * (b1 + (IF Follow(b0) >= 2 THEN 256 * b2 ELSE 0) + (IF Follow(b0) >= 3 THEN 65536 * b3 ELSE 0))

Init == n \in Nat /\ n + 4 <= 268435455
Next == UNCHANGED n

Inv ==
  /\ B0(n) \in 0..255 /\ B1(n) \in 0..255 /\ B2(n) \in 0..255 /\ B3(n) \in 0..255
  /\ Follow(B0(n)) = K(n) - 1                                  \* follow-byte count in bits 7-6
  /\ (K(n) > 1 => (B0(n) \div 16) % 4 = 0)                      \* bits 5-4 zero when follow bytes are present
  /\ Dec(B0(n), B1(n), B2(n), B3(n)) = n + K(n)                  \* decodes to content + own size
  /\ V(n) <= Max(K(n))                                           \* fits
  /\ \A j \in 1..3 : j < K(n) => n + j > Max(j)                  \* no shorter encoding can include itself
  /\ (K(n) < 4 => B3(n) = 0) /\ (K(n) < 3 => B2(n) = 0)
=============================================================================
