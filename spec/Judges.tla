------------------------------- MODULE Judges -------------------------------
(***************************************************************************)
(* The property predicates over (abstract table state, image bytes), used  *)
(* both as invariants on the specification's own images (MC_Tables) and as *)
(* the judges of observed images (Trace_Tables).                           *)
(***************************************************************************)
EXTENDS Tables, Walk, CkAlgebra

---------------------------------------------------------------------------
\* C05 helpers: where reference fields live in an entry, and what they must point to
RefItems(e) ==
  LET cs == CallsOf(e)
      idx(o) == SelectSeq([j \in 1..Len(cs) |-> j], LAMBDA j : cs[j].o = o)
  IN CASE e.op = "add_processor" ->
            <<[chunk |-> "parent", k |-> 0, w |-> 4, ref |-> e.a.parent, ty |-> {0}]>> \o
            [j \in 1..Len(idx("add_cache")) |-> [chunk |-> "res", k |-> 4 * (j - 1), w |-> 4,
                                                  ref |-> cs[idx("add_cache")[j]].a.ref, ty |-> {1}]]
       [] e.op = "add_cache" ->
            IF idx("next_level") = <<>> THEN <<>>
            ELSE <<[chunk |-> "next", k |-> 0, w |-> 4, ref |-> cs[idx("next_level")[Len(idx("next_level"))]].a.ref, ty |-> {1}]>>
       [] e.op = "add_hart_info" ->
            <<[chunk |-> "offs", k |-> 0, w |-> 4, ref |-> e.a.isa, ty |-> {0}]>> \o
            [j \in 1..Len(cs) |-> [chunk |-> "offs", k |-> 4 * j, w |-> 4, ref |-> cs[j].a.ref, ty |-> {1}]]
       [] e.op \in {"add_pcie_root_complex", "add_platform"} ->
            [j \in 1..Len(OptList(e.a, "maps")) |-> [chunk |-> "maps", k |-> 20 * (j - 1) + 12, w |-> 4,
                                                      ref |-> e.a.maps[j].iommu, ty |-> {0}]]
       [] e.op \in {"add_pci_range", "add_mmio_endpoint"} ->
            <<[chunk |-> "out", k |-> 0, w |-> 2, ref |-> e.a.ref, ty |-> {3, 4}]>>
       [] OTHER -> <<>>
HandleType == [add_processor |-> 0, add_cache |-> 1, add_isa_string |-> 0, add_cmo |-> 1, add_iommu |-> 0,
               add_virtio_pci_iommu |-> 3, add_virtio_mmio_iommu |-> 4]
\* position (1-based) of the k-th add among all operations, and back
AddIdx(es) == SelectSeq([j \in 1..Len(es) |-> j], LAMBDA j : IsAdd(es[j]))

C05Ok(k, es, rs, img) ==
  LET w == Walk(k, img)
      ai == AddIdx(es)
  IN /\ w.ok /\ Len(w.ents) = Len(ai)
     /\ \A n \in 1..Len(ai) :
          LET j == ai[n] e == es[j] IN
          /\ (rs[j] # <<>> => /\ Small(rs[j]) /\ Val(rs[j]) = w.ents[n].off
                              /\ w.ents[n].type = HandleType[e.op])
          /\ LET lay == EntryLay(e, rs) items == RefItems(e) IN
             \A q \in 1..Len(items) :
               LET it == items[q] IN
               it.ref # 0 =>
                 LET pos == w.ents[n].off + ChunkOff(lay, CHOOSE i \in 1..Len(lay) : lay[i].n = it.chunk) + it.k IN
                 /\ In(img, pos, it.w)
                 /\ Slice(img, pos, it.w) = W(rs[it.ref], it.w)                    \* the handle, verbatim
                 /\ \E m \in 1..Len(w.ents) : w.ents[m].off = Val(rs[it.ref]) /\ w.ents[m].type \in it.ty

\* histories with Default-built entries (type and own length zero: no walk): offsets from the reference entry sizes
C05OkRef(k, es, rs, img) ==
  LET offs == EntryOffsets(k, es, rs)
      ai == AddIdx(es)
  IN \A n \in 1..Len(ai) :
       LET j == ai[n] e == es[j] IN
       /\ (rs[j] # <<>> => Small(rs[j]) /\ Val(rs[j]) = offs[n])
       /\ ~IsDefault(e) =>
            LET lay == EntryLay(e, rs) items == RefItems(e) IN
            \A q \in 1..Len(items) :
              LET it == items[q] IN
              it.ref # 0 =>
                LET pos == offs[n] + ChunkOff(lay, CHOOSE i \in 1..Len(lay) : lay[i].n = it.chunk) + it.k IN
                /\ In(img, pos, it.w)
                /\ Slice(img, pos, it.w) = W(rs[it.ref], it.w)
                /\ \E m \in 1..Len(ai) : /\ offs[m] = Val(rs[it.ref]) /\ es[ai[m]].op \in DOMAIN HandleType
                                          /\ HandleType[es[ai[m]].op] \in it.ty

---------------------------------------------------------------------------
\* C12: matrix regions of the observed image against the last-writer maps of the specification
SllbiIdx(es) == SelectSeq([j \in 1..Len(es) |-> j], LAMBDA j : es[j].op = "add_system_locality")
C12Ok(k, c, es, rs, img) ==
  IF k = "SLIT" THEN Len(img) = 44 + c.n * c.n /\ Slice(img, 44, c.n * c.n) = SlitMatrix(c.n, es)
  ELSE LET offs == EntryOffsets(k, es, rs) ai == AddIdx(es) IN
       \A n \in 1..Len(ai) :
         es[ai[n]].op = "add_system_locality" =>
           LET lay == EntryLay(es[ai[n]], rs)
               m == ChunkOf(lay, "matrix").b
               pos == offs[n] + ChunkOff(lay, CHOOSE i \in 1..Len(lay) : lay[i].n = "matrix")
           IN In(img, pos, Len(m)) /\ Slice(img, pos, Len(m)) = m

---------------------------------------------------------------------------
\* C11 for the two whole-table option builders: flag chunks and frame
OptKinds == {"FADT", "TCPA_SERVER"}
FlagChunks == {"flags", "dev_flags", "int_flags"}
C11Flags(k, c, es, rs, img) ==
  LET lay == TblLay(k, c, es, rs) IN
  \A i \in 1..Len(lay) : lay[i].n \in FlagChunks =>
     (In(img, ChunkOff(lay, i), Len(lay[i].b)) /\ Slice(img, ChunkOff(lay, i), Len(lay[i].b)) = lay[i].b)
\* positions the last call may change: the chunks whose reference value it changed, plus the checksum byte
C11Frame(k, c, es, rs, before, img) ==
  LET layA == TblLay(k, c, SubSeq(es, 1, Len(es) - 1), rs)
      layB == TblLay(k, c, es, rs)
      changed == {i \in 1..Len(layB) : layA[i].b # layB[i].b}
      governed == UNION {{ChunkOff(layB, i) + q : q \in 0..(Len(layB[i].b) - 1)} : i \in changed}
  IN Len(before) = Len(img) /\ DiffPos(before, img) \subseteq (governed \cup {9})

---------------------------------------------------------------------------
\* diagnostics: first differing position (the checksum byte only if nothing else differs) and the chunk owning it
DiffAt(ref, img) ==
  LET m == IF Len(ref) < Len(img) THEN Len(ref) ELSE Len(img)
      D == {i \in 0..(m - 1) : ref[i + 1] # img[i + 1] /\ i # 9}
  IN IF D # {} THEN CHOOSE i \in D : \A j \in D : i <= j
     ELSE IF Len(ref) # Len(img) THEN m ELSE IF m > 9 /\ ref[10] # img[10] THEN 9 ELSE -1
ChunkAt(lay, p) ==
  LET hits == {i \in 1..Len(lay) : ChunkOff(lay, i) <= p /\ p < ChunkOff(lay, i) + Len(lay[i].b)}
  IN IF hits = {} THEN "end" ELSE LET i == CHOOSE i \in hits : TRUE IN IF lay[i].n = "" THEN "reserved_or_constant" ELSE lay[i].n
Owner(k, c, es, rs, p) ==
  IF p < 0 THEN "none"
  ELSE LET lay == TblLay(k, c, es, rs) top == ChunkAt(lay, p) IN
       IF top # "body" THEN top
       ELSE LET offs == EntryOffsets(k, es, rs) ai == AddIdx(es)
                n == CHOOSE n \in 1..Len(offs) : offs[n] <= p /\ (n = Len(offs) \/ p < offs[n + 1])
            IN es[ai[n]].op \o "." \o ChunkAt(EntryLay(es[ai[n]], rs), p - offs[n])


---------------------------------------------------------------------------
\* C18: caller-controlled counts and sizes must fit the field that encodes them; otherwise the operation is refused
NCalls(e, o) == Len(SelectSeq(CallsOf(e), LAMBDA c : c.o = o))
PciFits(p) == Val(p.dev) < 32 /\ Val(p.fn) < 8
OpFits(k, c, es, rs, e) ==
  CASE e.op = "add_processor" -> 20 + 4 * NCalls(e, "add_cache") <= 255                    \* one-byte node length
    [] e.op = "add_xor_interleave_math" -> NCalls(e, "add_xormap") <= 255                  \* one-byte bitmap count
    [] e.op = "add_memory_side_cache" -> NCalls(e, "add_smbios_handle") <= 65535           \* two-byte handle count
    [] e.op = "add_iommu" -> 32 + 8 * Len(OptList(e.a, "wires")) <= 65535 /\ ("pci" \in DOMAIN e.a => PciFits(e.a.pci))
    [] e.op = "add_pcie_root_complex" -> 16 + 20 * Len(OptList(e.a, "maps")) <= 65535
    [] e.op = "add_platform" -> 12 + Len(e.a.name) + 1 + 20 * Len(OptList(e.a, "maps")) <= 65535
    [] e.op = "add_controller" -> Len(EntryBytes(e, rs)) <= 65535 /\ NCalls(e, "add_resource") <= 65535
                                  /\ \A i \in 1..Len(CallsOf(e)) : Len(ResBytes(CallsOf(e)[i].a.v)) <= 65535
    [] e.op = "add_isa_string" -> 8 + Len(e.a.str) + 2 <= 65535
    [] e.op = "add_hart_info" -> 12 + 4 * (1 + NCalls(e, "with_cmo")) <= 65535
    [] k = "VIOT" /\ IsAdd(e) ->                         \* 16-bit node count and 16-bit node offsets
         /\ NAdds(es) + 1 <= 65535
         /\ 48 + FoldLeft(LAMBDA acc, x : acc + (IF x.op \in {"add_pci_range", "add_mmio_endpoint"} THEN 24 ELSE IF IsAdd(x) THEN 16 ELSE 0), 0, es) <= 65535
         /\ (e.op \in {"add_virtio_pci_iommu"} => PciFits(e.a.pci))
         /\ (e.op = "add_pci_range" => PciFits(e.a.first) /\ PciFits(e.a.last))
    [] e.op = "set_distance" -> e.a.a < c.n /\ e.a.b < c.n                                   \* matrix indices in range
    [] e.op = "add_system_locality" ->
         \A i \in 1..Len(CallsOf(e)) : LET cl == CallsOf(e)[i] IN
           /\ (cl.o = "set_initiator_value" => cl.a.idx < e.a.ni)
           /\ (cl.o = "set_target_value" => cl.a.idx < e.a.nt)
           /\ (cl.o = "set_entry_value" => cl.a.i < e.a.ni /\ cl.a.j < e.a.nt)
    [] e.op = "add_fixed_memory" -> NCalls(e, "add_target") = WaysNum[e.a.ways]              \* one target per interleave way
    [] e.op = "add_imsic" -> ~HasOp(es, "add_imsic")
    [] e.op = "set_log_area" -> ~HasOp(es, "set_log_area")
    [] e.op = "add_generic_initiator" -> (e.a.handle.t = "pci" => PciFits(e.a.handle))
    [] e.op = "add_port_association" -> PciFits(e.a)
    [] e.op = "pci_sbdf" -> PciFits(e.a)
    [] e.op \in {"add_aer_root_port", "add_aer_device", "add_aer_bridge"} -> (e.a.ctor # "global" => PciFits(e.a.pci))
    [] OTHER -> TRUE
\* SLIT: localities^2 bytes must be representable in the 32-bit Length
CtorFits(k, c) == k = "SLIT" => c.n <= 65535

---------------------------------------------------------------------------
\* one predicate per property, over (kind, ctor, entries, returned handles, image)
P_C01(k, img) == k \in ChecksummedKinds => (Sum8(img) = 0 /\ (k = "RSDP" => Len(img) >= 20 /\ Sum8(Slice(img, 0, 20)) = 0))
P_C02(k, img) == LET o == IF k = "RSDP" THEN 20 ELSE 4 IN Len(img) >= o + 4 /\ Slice(img, o, 4) = LE(Len(img), 4)
P_C03(k, c, es, rs, img, ref) ==
  /\ k \in WalkKinds => LET w == Walk(k, img) wr == Walk(k, ref) IN w.ok /\ w.summary /\ Shape(w) = Shape(wr)
  /\ k = "SLIT" => SlitOk(img) /\ R16(img, 36) = c.n
P_C05(k, es, rs, img) == k \in {"PPTT", "RHCT", "RIMT", "VIOT"} => IF HasDefaults(es) THEN C05OkRef(k, es, rs, img) ELSE C05Ok(k, es, rs, img)
P_C12(k, c, es, rs, img) == k \in {"SLIT", "HMAT"} => (C12Ok(k, c, es, rs, img) /\ Sum8(img) = 0)
=============================================================================
