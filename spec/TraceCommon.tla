---------------------------- MODULE TraceCommon ----------------------------
(***************************************************************************)
(* Shared plumbing of all trace specifications (implementation -> spec).   *)
(* The harness records one JSON object per line; Rec is that sequence.     *)
(* A trace specification consumes exactly one record per step (variable l  *)
(* is the index of the next record), rebuilds the abstract state from the  *)
(* logged operation and judges the property predicates on the logged       *)
(* observation.  Judgement is non-blocking: a failing predicate prints a   *)
(* FAIL record and the trace continues, so one defect does not hide the    *)
(* rest of the trace.  Acceptance (every record consumed) is still         *)
(* required and reported by the DONE line.                                 *)
(***************************************************************************)
EXTENDS TLC, Json, IOUtils, Sequences, Naturals

Rec == ndJsonDeserialize(IOEnv.TRACE)
NRec == Len(Rec)
Prop == IF "PROP" \in DOMAIN IOEnv THEN IOEnv.PROP ELSE "ALL"
Judging(p) == Prop = "ALL" \/ Prop = p

Has(r, f) == f \in DOMAIN r
Get(r, f, d) == IF f \in DOMAIN r THEN r[f] ELSE d

\* non-blocking judgement: TRUE either way, prints on failure
Judge(p, P, info) == IF ~Judging(p) \/ P THEN TRUE ELSE PrintT("FAIL " \o ToJson([prop |-> p] @@ info))

\* acceptance: the search reached the state after the last record
DoneMsg(l) == l = NRec + 1 => PrintT("DONE " \o ToString(NRec))
Accepted == IF TLCGet("stats").diameter = NRec + 1 THEN TRUE
            ELSE PrintT("STUCK " \o ToString(TLCGet("stats").diameter))
=============================================================================
