SPECIFICATION TSpec
INVARIANT Done
POSTCONDITION Accepted
CHECK_DEADLOCK FALSE
