------------------------------ MODULE Trace_Aml ------------------------------
(***************************************************************************)
(* Implementation -> specification for the AML encoder.  Events carry what *)
(* the driver asked for (a term tree, a batch of lengths / integers /      *)
(* strings) and the bytes the real crate produced; the predicates of       *)
(* C06-C10, C15, C16 and C18 are evaluated on the observed bytes.          *)
(***************************************************************************)
EXTENDS AmlEnc, AmlDec, Digest, TraceCommon

VARIABLE l
TInit == l = 1
E == Rec[l]

Sel(seq, P(_)) == {i \in 1..Len(seq) : P(i)}
First(S) == IF S = {} THEN 0 ELSE CHOOSE i \in S : \A j \in S : i <= j

---------------------------------------------------------------------------
\* term trees
FramedOpLen == [Package |-> 1, PackageBuilder |-> 1, VarPackage |-> 1, BufferData |-> 1, BufferFill |-> 1, BufferTerm |-> 1, Uuid |-> 1,
                ResourceTemplate |-> 1, Device |-> 2, Scope |-> 1, ScopeRaw |-> 1, Method |-> 1, PowerResource |-> 2,
                Field |-> 2, If |-> 1, Else |-> 1, While |-> 1]
AInfo(what) == [l |-> l, run |-> E.run, root |-> E.tree.t, what |-> what, tag |-> Get(E, "tag", ""),
                sig |-> "aml/" \o E.tree.t \o "/" \o what]

\* C07 at a call site: the PkgLength after the opcode decodes to everything from its own first byte to the end of
\* the object, has a well-formed lead byte, and is the shortest that can include itself
CallSitePkgOk(bytes, total, oplen) ==
  LET d == PkgDec(bytes, oplen) IN
  /\ d.ok /\ d.v = total - oplen /\ d.k = InclK(total - oplen - d.k)

\* C10: a descriptor: tag, length field = bytes that follow, values at their offsets (= reference encoding)
DescOk(x, bytes) ==
  /\ bytes = DescEnc(x)
  /\ (bytes[1] >= 128 => Len(bytes) >= 3 /\ bytes[2] + 256 * bytes[3] = Len(bytes) - 3)
  /\ (bytes[1] < 128 => bytes[1] % 8 = Len(bytes) - 1)
TemplateOk(x, bytes) ==
  LET d == PkgDec(bytes, 1) IN
  /\ Len(bytes) >= 2 /\ bytes[1] = 17 /\ d.ok /\ d.v = Len(bytes) - 1
  /\ LET sz == IntDec(bytes, 1 + d.k) IN
     /\ sz.ok
     /\ LET payload == From(bytes, sz.n) IN
        /\ Small(sz.v) /\ Val(sz.v) = Len(payload)                               \* declared size = payload
        /\ Len(payload) >= 2 /\ Slice(payload, Len(payload) - 2, 2) = EndTag       \* ends with the end tag
        /\ LET w == ResItems(payload, 0, <<>>) IN
           /\ w.ok /\ Len(w.items) = Len(x.ch) + 1                              \* the walk tiles it exactly
           /\ \A i \in 1..Len(x.ch) : Slice(payload, w.items[i].off, w.items[i].len) = DescEnc(x.ch[i])  \* children in order

\* the filler blob an object ends with (large objects are a container around one BufferFill), if any
RECURSIVE LastFill(_)
LastFill(x) == IF x.t = "BufferFill" THEN <<x>>
               ELSE IF "ch" \in DOMAIN x /\ Len(x.ch) > 0 THEN LastFill(x.ch[Len(x.ch)])
               ELSE IF "v" \in DOMAIN x THEN LastFill(x.v) ELSE <<>>
\* the object ends with exactly the blob's bytes: at least n of them (more only if the bytes before happen to be equal)
TailOk == LET f == LastFill(E.tree) IN
  (Has(E, "tail") /\ f # <<>> /\ f[1].n >= 16) => (E.tail = Fill(16, f[1].b) /\ E.tail_run >= f[1].n /\ E.tail_run <= f[1].n + 12)

TAml ==
  /\ E.ev = "aml"
  /\ Judge("C18", ~E.panic => TreeFits(E.tree), AInfo("oversize_not_refused"))
  /\ IF E.panic
     THEN /\ Judge("C06", ~TreeFits(E.tree), AInfo("unexpected_panic"))
          /\ Judge("C10", ~(IsDesc(E.tree) \/ E.tree.t = "ResourceTemplate") \/ ~TreeFits(E.tree), AInfo("unexpected_panic"))
     ELSE IF Has(E, "bytes")
     THEN LET b == E.bytes IN
          /\ Judge("C06", LET p == Parse(b, ArityTable(E.arities)) IN p.ok /\ p.t = Norm(E.tree), AInfo("parse_back"))
          /\ Judge("C07", E.tree.t \in DOMAIN FramedOpLen => CallSitePkgOk(b, Len(b), FramedOpLen[E.tree.t]), AInfo("call_site_pkglength"))
          /\ Judge("C07", E.tree.t = "Field" =>
                     LET p == Parse(b, {}) IN p.ok /\ Len(p.t.fields) = Len(E.tree.fields)
                                              /\ \A i \in 1..Len(p.t.fields) : p.t.fields[i].bits = E.tree.fields[i].bits,
                   AInfo("field_widths"))
          /\ Judge("C10", IsDesc(E.tree) => DescOk(E.tree, b), AInfo("descriptor"))
          /\ Judge("C10", E.tree.t = "ResourceTemplate" => TemplateOk(E.tree, b), AInfo("template"))
          /\ Judge("C08", E.tree.t \in {"Int", "Zero", "One"} =>
                     LET v == IF E.tree.t = "Int" THEN IntBytes(E.tree) ELSE IF E.tree.t = "One" THEN One(8) ELSE Zeros(8) IN
                     b = IntEnc(v) /\ IntDec(b, 0).ok /\ IntDec(b, 0).v = v /\ IntDec(b, 0).n = Len(b), AInfo("integer"))
          \* integers embedded as operands: the BufferSize of a data buffer is the integer constant of its length
          /\ Judge("C08", E.tree.t \in {"BufferFill", "BufferData"} =>
                     LET n == IF E.tree.t = "BufferFill" THEN E.tree.n ELSE Len(E.tree.d)
                         d == PkgDec(b, 1) sz == IntDec(b, 1 + d.k) IN
                     d.ok /\ sz.ok /\ sz.v = IntOfNat(n) /\ Slice(b, 1 + d.k, sz.n - 1 - d.k) = IntEnc(IntOfNat(n)), AInfo("buffer_size_operand"))
          \* ... and the BufferSize of a resource template is the integer constant of its payload (descriptors + end tag)
          /\ Judge("C08", E.tree.t = "ResourceTemplate" =>
                     LET n == Len(EncList(E.tree.ch)) + 2
                         d == PkgDec(b, 1) sz == IntDec(b, 1 + d.k) IN
                     d.ok /\ sz.ok /\ sz.v = IntOfNat(n) /\ Slice(b, 1 + d.k, sz.n - 1 - d.k) = IntEnc(IntOfNat(n)), AInfo("buffer_size_operand"))
          /\ Judge("C09", "path" \in DOMAIN E.tree /\ E.tree.t # "ScopeRaw" /\ E.tree.t \in {"Name", "Device", "Scope", "Method", "Mutex", "OpRegion", "Field", "PowerResource", "MethodCall", "Acquire", "Release"} =>
                     LET pre == CASE E.tree.t \in {"Device", "Field", "PowerResource"} -> 2 + PkgDec(b, 2).k
                                  [] E.tree.t \in {"Scope", "Method"} -> 1 + PkgDec(b, 1).k
                                  [] E.tree.t \in {"Mutex", "OpRegion", "Acquire", "Release"} -> 2
                                  [] E.tree.t = "Name" -> 1 [] OTHER -> 0
                         nb == NameOf(E.tree.path) IN
                     Len(b) >= pre + Len(nb) /\ Slice(b, pre, Len(nb)) = nb, AInfo("name_in_object"))
     ELSE \* summary event of a very large object: only the framing can be judged (C07)
          /\ Judge("C07", E.tree.t \in DOMAIN FramedOpLen => CallSitePkgOk(E.head, E.len, FramedOpLen[E.tree.t]), AInfo("call_site_pkglength_large"))
          /\ Judge("C18", E.tree.t \in DOMAIN FramedOpLen => CallSitePkgOk(E.head, E.len, FramedOpLen[E.tree.t]), AInfo("length_field_disagrees_with_content"))
          \* the end of a large object (the beginning is judged through its head): the filler blob, whole, and nothing after it
          /\ Judge("C18", TailOk, AInfo("large_object_tail"))
          /\ Judge("C07", TailOk, AInfo("large_object_tail"))
          /\ Judge("C06", TailOk, AInfo("large_object_tail"))

---------------------------------------------------------------------------
\* C15: two construction paths
TAlt ==
  /\ E.ev = "alt"
  /\ LET I(what) == [l |-> l, run |-> E.run, what |-> what, kind |-> E.what, sig |-> "alt/" \o E.what \o "/" \o what] IN
     \* the two paths agree also on refusal: either both emit, or both refuse
     /\ Judge("C15", E.panic_a = E.panic_b /\ (E.panic_a => ~TreeFits(E.a)), I("paths_disagree_on_refusal"))
     /\ IF Has(E, "summary")
        THEN Judge("C15", E.len_a = E.len_b /\ E.first_diff = -1, I("bytes_differ_large") @@ [at |-> E.first_diff, la |-> E.len_a, lb |-> E.len_b])
        ELSE Judge("C15", (E.panic_a \/ E.panic_b) \/ E.bytes_a = E.bytes_b, I("bytes_differ") @@ [at |-> FirstDiff(E.bytes_a, E.bytes_b), la |-> Len(E.bytes_a), lb |-> Len(E.bytes_b)])

---------------------------------------------------------------------------
\* C07: the PkgLength encoder over batches of lengths (both forms); C18: lengths that do not fit are refused
PkgOk(n, incl, out) ==
  LET d == PkgDec(out, 0) IN
  /\ Len(out) >= 1 /\ d.ok /\ d.k = Len(out)
  /\ d.v = (IF incl THEN n + Len(out) ELSE n)
  /\ (incl => Len(out) = InclK(n))
TPkg ==
  /\ E.ev = "pkglen"
  /\ LET fits(i) == IF E.incl THEN E.ns[i] <= 268435451 ELSE E.ns[i] <= 268435455
         bad == Sel(E.ns, LAMBDA i : fits(i) /\ (E.panics[i] \/ ~PkgOk(E.ns[i], E.incl, E.outs[i])))
         unrefused == Sel(E.ns, LAMBDA i : ~fits(i) /\ ~E.panics[i])
     IN /\ Judge("C07", bad = {}, [l |-> l, run |-> E.run, what |-> "pkglength", incl |-> E.incl,
                                   sig |-> "pkglen/" \o (IF E.incl THEN "inclusive" ELSE "exclusive"),
                                   n |-> IF bad = {} THEN 0 ELSE E.ns[First(bad)], out |-> IF bad = {} THEN <<>> ELSE E.outs[First(bad)],
                                   count |-> Cardinality(bad)])
        /\ Judge("C18", unrefused = {}, [l |-> l, run |-> E.run, what |-> "oversize_pkglength_not_refused",
                                         sig |-> "pkglen/oversize_not_refused", n |-> IF unrefused = {} THEN 0 ELSE E.ns[First(unrefused)]])
        \* lengths of 2^31 and more (byte strings): whatever their low bits look like, none fits 28 bits
        /\ LET wun == IF Has(E, "wide") THEN Sel(E.wide, LAMBDA i : ~(Small(E.wide[i]) /\ Val(SubSeq(E.wide[i], 1, 4)) <= 268435451) /\ ~E.wpanics[i]) ELSE {} IN
           Judge("C18", wun = {}, [l |-> l, run |-> E.run, what |-> "oversize_pkglength_not_refused", sig |-> "pkglen/oversize_not_refused",
                                   wide |-> IF wun = {} THEN <<>> ELSE E.wide[First(wun)], out |-> IF wun = {} THEN <<>> ELSE E.wouts[First(wun)]])

---------------------------------------------------------------------------
\* C08: integer constants through every carrier type
IntOk(v, out) == out = IntEnc(v) /\ LET d == IntDec(out, 0) IN d.ok /\ d.v = v /\ d.n = Len(out)
TInts ==
  /\ E.ev = "ints"
  /\ LET bad(ty) == Sel(E.vals, LAMBDA i : E[ty][i] # <<>> /\ ~IntOk(W(E.vals[i], 8), E[ty][i]))
         missing == Sel(E.vals, LAMBDA i : E.u64[i] = <<>> \/ E.usize[i] = <<>>)
         \* "_bytesink": the same constant delivered to a sink that implements byte() only
         tys == <<"u8", "u16", "u32", "u64", "usize", "u16_bytesink", "u32_bytesink", "u64_bytesink", "usize_bytesink">>
         allbad == UNION {bad(tys[k]) : k \in 1..Len(tys)} \cup missing
     IN Judge("C08", allbad = {}, [l |-> l, run |-> E.run, what |-> "integer_constant", sig |-> "ints/encoding",
                                   v |-> IF allbad = {} THEN <<>> ELSE E.vals[First(allbad)],
                                   via |-> IF allbad = {} THEN "" ELSE (LET i == First(allbad) IN
                                            CHOOSE t \in {tys[k] : k \in 1..Len(tys)} : i \in bad(t) \/ i \in missing),
                                   count |-> Cardinality(allbad)])

---------------------------------------------------------------------------
\* C09 paths, C16 EISA ids and UUIDs, batched
PathOk(s, out) == LET p == ParsePath(s) IN out = NameEnc(p) /\ LET d == NameDec(out, 0) IN d.ok /\ d.p = p /\ d.n = Len(out)
EisaOk(s, out) == /\ out = IntEnc(W(EisaCompress(s), 8))
                  /\ LET d == IntDec(out, 0) IN d.ok /\ EisaDecompress(SubSeq(d.v, 1, 4)) = EisaCanon(s)
UuidOk(s, out) == /\ out = <<17>> \o PkgIncl(18) \o <<10, 16>> \o UuidBytes(s)
                  /\ Len(out) = 20 /\ UuidString(From(out, 4)) = UuidCanon(s)
\* wrong length (in bytes or in characters), or a non-hex digit
EisaMalformed(s) == Len(s) # 7 \/ CharLen(s) # 7 \/ \E i \in 4..7 : HexVal(s[i]) < 0
UuidMalformed(s) == ~UuidValid(s) \/ CharLen(s) # 36
TStrs ==
  /\ E.ev = "strs"
  /\ LET n == Len(E.strs)
         I(p, what, S) == [l |-> l, run |-> E.run, what |-> what, sig |-> "strs/" \o E.what \o "/" \o what,
                           s |-> IF S = {} THEN <<>> ELSE E.strs[First(S)], out |-> IF S = {} THEN <<>> ELSE E.outs[First(S)],
                           count |-> Cardinality(S)]
     IN CASE E.what \in {"path", "path_from"} ->
               \* four-byte segments over the AML name alphabet [A-Z_][A-Z0-9_]{3}: accepted, encoded, decodable.
               \* four-byte segments with other characters are outside the property's quantifier: the crate may refuse
               \* them, and if it accepts them they are still emitted verbatim ("never in altered form").
               LET wf == Sel(E.strs, LAMBDA i : PathWellFormed(E.strs[i]) /\ Len(ParsePath(E.strs[i]).segs) <= 255)
                   alpha == {i \in wf : PathInAlphabet(E.strs[i])}
                   badenc == {i \in alpha : E.panics[i] \/ ~PathOk(E.strs[i], E.outs[i])}
                             \cup {i \in wf \ alpha : ~E.panics[i] /\ E.outs[i] # NameEnc(ParsePath(E.strs[i]))}
                   notref == Sel(E.strs, LAMBDA i : ~PathWellFormed(E.strs[i]) /\ ~E.panics[i])
                   toolong == Sel(E.strs, LAMBDA i : PathWellFormed(E.strs[i]) /\ Len(ParsePath(E.strs[i]).segs) > 255 /\ ~E.panics[i])
               IN /\ Judge("C09", badenc = {}, I("C09", "namestring", badenc))
                  /\ Judge("C09", notref = {}, I("C09", "malformed_not_refused", notref))
                  /\ Judge("C18", toolong = {}, I("C18", "too_many_segments_not_refused", toolong))
          [] E.what = "eisa" ->
               LET ok == Sel(E.strs, LAMBDA i : EisaValid(E.strs[i]))
                   \* product digits written in lower case (a-f) denote the same identifier, but whether the constructor
                   \* takes them is not the property's business: refused, or encoded as the same identifier
                   canon == {i \in ok : \A j \in 4..7 : E.strs[i][j] < 97}
                   badenc == {i \in ok : IF E.panics[i] THEN i \in canon ELSE ~EisaOk(E.strs[i], E.outs[i])}
                   notref == Sel(E.strs, LAMBDA i : EisaMalformed(E.strs[i]) /\ ~E.panics[i])
               IN /\ Judge("C16", badenc = {}, I("C16", "eisa_id", badenc))
                  /\ Judge("C16", notref = {}, I("C16", "malformed_eisa_not_refused", notref))
          [] E.what = "uuid" ->
               LET ok == Sel(E.strs, LAMBDA i : UuidValid(E.strs[i]))
                   badenc == {i \in ok : E.panics[i] \/ ~UuidOk(E.strs[i], E.outs[i])}
                   notref == Sel(E.strs, LAMBDA i : UuidMalformed(E.strs[i]) /\ ~E.panics[i])
               IN /\ Judge("C16", badenc = {}, I("C16", "uuid", badenc))
                  /\ Judge("C16", notref = {}, I("C16", "malformed_uuid_not_refused", notref))

---------------------------------------------------------------------------
\* exhaustive sweeps by digest tabulation (Digest.tla): the digests of the real encoder's outputs over a chunk must
\* be the digests of the specification's outputs, for every carrier type the harness used
SweepProp == [pkglen_incl |-> "C07", pkglen_excl |-> "C07", u32 |-> "C08", eisa |-> "C16"]
TSweep ==
  /\ E.ev = "sweep"
  /\ Judge(SweepProp[E.what], ~E.panic /\ LET d == SpecDigest(E.what, E.base, E.n) IN \A i \in 1..Len(E.ds) : E.ds[i] = d,
           [l |-> l, run |-> E.run, what |-> "sweep_digest", kind |-> E.what, base |-> E.base, n |-> E.n,
            sig |-> "sweep/" \o E.what])

TNext == l <= NRec /\ l' = l + 1 /\ (TAml \/ TAlt \/ TPkg \/ TInts \/ TStrs \/ TSweep)
TSpec == TInit /\ [][TNext]_l
Done == DoneMsg(l)
=============================================================================
