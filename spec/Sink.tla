-------------------------------- MODULE Sink --------------------------------
(***************************************************************************)
(* The sink protocol (`AmlSink` in src/lib.rs): a sink receives bytes      *)
(* through five entry points.  The meaning of a serialisation is only the  *)
(* concatenation of what was delivered, never how it was chunked.          *)
(*   out   what the sink has received so far (the abstract stream)         *)
(* One action per entry point; word/dword/qword deliver the scalar's       *)
(* little-endian bytes.                                                    *)
(***************************************************************************)
EXTENDS Bytes

VARIABLE out
SinkInit == out = <<>>
SByte(b) == out' = Append(out, b)
SWord(w) == Len(w) = 2 /\ out' = out \o w
SDWord(d) == Len(d) = 4 /\ out' = out \o d
SQWord(q) == Len(q) = 8 /\ out' = out \o q
SVec(v) == out' = out \o v

\* a recorded call [m, d] is well formed and contributes exactly its data
CallOk(c) == CASE c.m = "byte" -> Len(c.d) = 1 [] c.m = "word" -> Len(c.d) = 2 [] c.m = "dword" -> Len(c.d) = 4
               [] c.m = "qword" -> Len(c.d) = 8 [] c.m = "vec" -> TRUE [] OTHER -> FALSE
Stream(calls) == FoldLeft(LAMBDA acc, c : acc \o c.d, <<>>, calls)
=============================================================================
