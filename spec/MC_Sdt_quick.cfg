SPECIFICATION Spec
CONSTANTS
  Depth = 2
  InitLens = {36, 37, 40}
  Widths = {1, 2, 4, 8}
  OffsetSet = {0, 3, 4, 7, 8, 9, 10, 35}
  Emit = TRUE
INVARIANTS InvRefines InvSum InvLenAfterAppend InvAppendComposition InvSinkIsAppend EmitInv
CHECK_DEADLOCK FALSE
