------------------------------- MODULE AmlDec -------------------------------
(***************************************************************************)
(* An independent recursive-descent parser for the AML the crate emits,    *)
(* following the grammar of ACPI 6.5 section 20.2.  It is given bytes, an  *)
(* end position and the table of method-call arities; it knows nothing of  *)
(* the encoder.  Every PkgLength-delimited object must be consumed EXACTLY *)
(* by its children: a region that ends early or late makes the parse fail. *)
(* Results are [ok, t, n]: success, the term in normal form (AmlEnc!Norm), *)
(* and the 0-based position after the term.                                *)
(***************************************************************************)
EXTENDS AmlBase

Fail(pos) == [ok |-> FALSE, t |-> [t |-> "?"], n |-> pos]
Ok(t, n) == [ok |-> TRUE, t |-> t, n |-> n]
DInt(v) == [t |-> "Int", v |-> v]
DName(p) == [t |-> "NameStr", root |-> p.root, segs |-> p.segs]
DOp(op, args) == [t |-> "Op", op |-> op, args |-> args]

\* fixed-arity operators: opcode -> number of TermArg / SuperName operands
Arity == [o \in {112, 114, 115, 116, 119, 121, 122, 123, 124, 125, 126, 127, 131, 132, 133, 134, 135, 136, 138, 142, 143,
                 146, 147, 148, 149, 150, 153, 156, 158, 164} |->
            CASE o \in {131, 135, 142, 146, 164} -> 1
              [] o \in {112, 134, 147, 148, 149, 150, 153} -> 2
              [] o = 158 -> 4
              [] OTHER -> 3]

\* position of the first NUL at or after pos (before end), or -1
NulAt(b, pos, end) == LET Z == {i \in pos..(end - 1) : b[i + 1] = 0} IN IF Z = {} THEN -1 ELSE CHOOSE i \in Z : \A j \in Z : i <= j

\* a PkgLength-framed region starting right after the opcode at position q: [ok, body (start), e (end)]
Region(b, q, end) ==
  LET d == PkgDec(SubSeq(b, 1, end), q) IN
  IF ~d.ok THEN [ok |-> FALSE, body |-> q, e |-> q]
  ELSE [ok |-> d.v >= d.k /\ q + d.v <= end, body |-> q + d.k, e |-> q + d.v]

LookupArity(ar, nameBytes) == IF \E p \in ar : p[1] = nameBytes THEN (CHOOSE p \in ar : p[1] = nameBytes)[2] ELSE -1

RECURSIVE Term(_, _, _, _), Terms(_, _, _, _, _), TermList(_, _, _, _, _), FieldList(_, _, _, _)

\* exactly k consecutive terms
Terms(b, pos, end, ar, k) ==
  IF k = 0 THEN [ok |-> TRUE, ts |-> <<>>, n |-> pos]
  ELSE LET r == Term(b, pos, end, ar) IN
       IF ~r.ok THEN [ok |-> FALSE, ts |-> <<>>, n |-> pos]
       ELSE LET rest == Terms(b, r.n, end, ar, k - 1) IN
            [ok |-> rest.ok, ts |-> <<r.t>> \o rest.ts, n |-> rest.n]

\* terms until exactly end
\* (a list of more than MaxTerms terms is rejected: no generated object has one, and a mis-framed region full of
\* one-byte terms must fail, not exhaust the evaluator's stack)
MaxTerms == 3000
TermList(b, pos, end, ar, acc) ==
  IF pos = end THEN [ok |-> TRUE, ts |-> acc]
  ELSE IF pos > end \/ Len(acc) >= MaxTerms THEN [ok |-> FALSE, ts |-> acc]
  ELSE LET r == Term(b, pos, end, ar) IN
       IF ~r.ok \/ r.n <= pos THEN [ok |-> FALSE, ts |-> acc] ELSE TermList(b, r.n, end, ar, Append(acc, r.t))

\* FieldList := NamedField (NameSeg PkgLength) | ReservedField (00 PkgLength) ...   (PkgLength here excludes itself)
FieldList(b, pos, end, acc) ==
  IF pos = end THEN [ok |-> TRUE, fs |-> acc]
  ELSE IF pos > end THEN [ok |-> FALSE, fs |-> acc]
  ELSE IF b[pos + 1] = 0
       THEN LET d == PkgDec(SubSeq(b, 1, end), pos + 1) IN
            IF ~d.ok THEN [ok |-> FALSE, fs |-> acc]
            ELSE FieldList(b, pos + 1 + d.k, end, Append(acc, [k |-> "reserved", bits |-> d.v]))
       ELSE IF pos + 4 > end \/ ~IsLeadNameChar(b[pos + 1]) THEN [ok |-> FALSE, fs |-> acc]
            ELSE LET d == PkgDec(SubSeq(b, 1, end), pos + 4) IN
                 IF ~d.ok THEN [ok |-> FALSE, fs |-> acc]
                 ELSE FieldList(b, pos + 4 + d.k, end, Append(acc, [k |-> "named", name |-> Slice(b, pos, 4), bits |-> d.v]))

NameAt(b, pos, end) == LET r == NameDec(SubSeq(b, 1, end), pos) IN r

Term(b, pos, end, ar) ==
  IF pos >= end THEN Fail(pos)
  ELSE LET op == b[pos + 1] IN
  CASE IsIntOp(op) -> LET r == IntDec(SubSeq(b, 1, end), pos) IN IF r.ok THEN Ok(DInt(r.v), r.n) ELSE Fail(pos)
    [] op = 255 -> Ok([t |-> "Ones"], pos + 1)
    [] op = 13 -> LET z == NulAt(b, pos + 1, end) IN
                  IF z < 0 THEN Fail(pos) ELSE Ok([t |-> "Str", s |-> Slice(b, pos + 1, z - pos - 1)], z + 1)
    [] op = 8 -> LET nm == NameAt(b, pos + 1, end) IN
                 IF ~nm.ok THEN Fail(pos)
                 ELSE LET v == Term(b, nm.n, end, ar) IN
                      IF ~v.ok THEN Fail(pos) ELSE Ok([t |-> "Name", name |-> DName(nm.p), v |-> v.t], v.n)
    [] op \in {16, 20} ->                                     \* Scope, Method
         LET rg == Region(b, pos + 1, end) IN
         IF ~rg.ok THEN Fail(pos)
         ELSE LET nm == NameAt(b, rg.body, rg.e) IN
              IF ~nm.ok THEN Fail(pos)
              ELSE IF op = 16
                   THEN LET l == TermList(b, nm.n, rg.e, ar, <<>>) IN
                        IF ~l.ok THEN Fail(pos) ELSE Ok([t |-> "Scope", name |-> DName(nm.p), ch |-> l.ts], rg.e)
                   ELSE IF nm.n + 1 > rg.e THEN Fail(pos)
                        ELSE LET l == TermList(b, nm.n + 1, rg.e, ar, <<>>) IN
                             IF ~l.ok THEN Fail(pos)
                             ELSE Ok([t |-> "Method", name |-> DName(nm.p), flags |-> b[nm.n + 1], ch |-> l.ts], rg.e)
    [] op = 17 ->                                             \* Buffer: BufferSize (TermArg) then ByteList
         LET rg == Region(b, pos + 1, end) IN
         IF ~rg.ok THEN Fail(pos)
         ELSE LET sz == Term(b, rg.body, rg.e, ar) IN
              IF ~sz.ok THEN Fail(pos) ELSE Ok([t |-> "Buffer", size |-> sz.t, d |-> Slice(b, sz.n, rg.e - sz.n)], rg.e)
    [] op = 18 ->                                             \* Package: NumElements then elements
         LET rg == Region(b, pos + 1, end) IN
         IF ~rg.ok \/ rg.body + 1 > rg.e THEN Fail(pos)
         ELSE LET l == TermList(b, rg.body + 1, rg.e, ar, <<>>) IN
              IF ~l.ok THEN Fail(pos) ELSE Ok([t |-> "Package", n |-> b[rg.body + 1], ch |-> l.ts], rg.e)
    [] op = 19 ->                                             \* VarPackage: VarNumElements (TermArg) then elements
         LET rg == Region(b, pos + 1, end) IN
         IF ~rg.ok THEN Fail(pos)
         ELSE LET cnt == Term(b, rg.body, rg.e, ar) IN
              IF ~cnt.ok THEN Fail(pos)
              ELSE LET l == TermList(b, cnt.n, rg.e, ar, <<>>) IN
                   IF ~l.ok THEN Fail(pos) ELSE Ok([t |-> "VarPackage", n |-> cnt.t, ch |-> l.ts], rg.e)
    [] op \in {160, 162} ->                                   \* If, While: predicate then TermList
         LET rg == Region(b, pos + 1, end) IN
         IF ~rg.ok THEN Fail(pos)
         ELSE LET p == Term(b, rg.body, rg.e, ar) IN
              IF ~p.ok THEN Fail(pos)
              ELSE LET l == TermList(b, p.n, rg.e, ar, <<>>) IN
                   IF ~l.ok THEN Fail(pos)
                   ELSE Ok([t |-> IF op = 160 THEN "If" ELSE "While", p |-> p.t, ch |-> l.ts], rg.e)
    [] op = 161 ->                                            \* Else
         LET rg == Region(b, pos + 1, end) IN
         IF ~rg.ok THEN Fail(pos)
         ELSE LET l == TermList(b, rg.body, rg.e, ar, <<>>) IN
              IF ~l.ok THEN Fail(pos) ELSE Ok([t |-> "Else", ch |-> l.ts], rg.e)
    [] op \in 96..110 -> Ok(DOp(op, <<>>), pos + 1)           \* Local0..7, Arg0..6
    [] op \in DOMAIN Arity ->
         LET r == Terms(b, pos + 1, end, ar, Arity[op]) IN IF ~r.ok THEN Fail(pos) ELSE Ok(DOp(op, r.ts), r.n)
    [] op = 91 ->                                             \* ExtOpPrefix
         IF pos + 2 > end THEN Fail(pos)
         ELSE LET x == b[pos + 2] IN
         CASE x = 1 -> LET nm == NameAt(b, pos + 2, end) IN     \* Mutex: NameString SyncFlags
                       IF ~nm.ok \/ nm.n + 1 > end THEN Fail(pos)
                       ELSE Ok([t |-> "Mutex", name |-> DName(nm.p), sync |-> b[nm.n + 1]], nm.n + 1)
           [] x = 35 -> LET nm == NameAt(b, pos + 2, end) IN    \* Acquire: MutexObject Timeout(word)
                        IF ~nm.ok \/ nm.n + 2 > end THEN Fail(pos)
                        ELSE Ok([t |-> "Acquire", name |-> DName(nm.p), timeout |-> b[nm.n + 1] + 256 * b[nm.n + 2]], nm.n + 2)
           [] x = 39 -> LET nm == NameAt(b, pos + 2, end) IN    \* Release: MutexObject
                        IF ~nm.ok THEN Fail(pos) ELSE Ok([t |-> "Release", name |-> DName(nm.p)], nm.n)
           [] x = 19 -> LET r == Terms(b, pos + 2, end, ar, 4) IN   \* CreateField: SourceBuff BitIndex NumBits NameString
                        IF ~r.ok THEN Fail(pos) ELSE Ok(DOp(23315, r.ts), r.n)
           [] x = 128 -> LET nm == NameAt(b, pos + 2, end) IN   \* OpRegion: NameString RegionSpace RegionOffset RegionLen
                         IF ~nm.ok \/ nm.n + 1 > end THEN Fail(pos)
                         ELSE LET r == Terms(b, nm.n + 1, end, ar, 2) IN
                              IF ~r.ok THEN Fail(pos)
                              ELSE Ok([t |-> "OpRegion", name |-> DName(nm.p), space |-> b[nm.n + 1], off |-> r.ts[1],
                                       len |-> r.ts[2]], r.n)
           [] x \in {129, 130, 132} ->                          \* Field, Device, PowerResource
                LET rg == Region(b, pos + 2, end) IN
                IF ~rg.ok THEN Fail(pos)
                ELSE LET nm == NameAt(b, rg.body, rg.e) IN
                     IF ~nm.ok THEN Fail(pos)
                     ELSE IF x = 130
                          THEN LET l == TermList(b, nm.n, rg.e, ar, <<>>) IN
                               IF ~l.ok THEN Fail(pos) ELSE Ok([t |-> "Device", name |-> DName(nm.p), ch |-> l.ts], rg.e)
                          ELSE IF x = 129
                          THEN IF nm.n + 1 > rg.e THEN Fail(pos)
                               ELSE LET fl == FieldList(b, nm.n + 1, rg.e, <<>>) IN
                                    IF ~fl.ok THEN Fail(pos)
                                    ELSE Ok([t |-> "Field", name |-> DName(nm.p), flags |-> b[nm.n + 1], fields |-> fl.fs], rg.e)
                          ELSE IF nm.n + 3 > rg.e THEN Fail(pos)
                               ELSE LET l == TermList(b, nm.n + 3, rg.e, ar, <<>>) IN
                                    IF ~l.ok THEN Fail(pos)
                                    ELSE Ok([t |-> "PowerResource", name |-> DName(nm.p), level |-> b[nm.n + 1],
                                             order |-> b[nm.n + 2] + 256 * b[nm.n + 3], ch |-> l.ts], rg.e)
           [] OTHER -> Fail(pos)
    [] StartsName(op) ->                                      \* NameString: a method invocation if its arity is known
         LET nm == NameAt(b, pos, end) IN
         IF ~nm.ok THEN Fail(pos)
         ELSE LET k == LookupArity(ar, Slice(b, pos, nm.n - pos)) IN
              IF k < 0 THEN Ok(DName(nm.p), nm.n)
              ELSE LET r == Terms(b, nm.n, end, ar, k) IN
                   IF ~r.ok THEN Fail(pos) ELSE Ok([t |-> "Call", name |-> DName(nm.p), args |-> r.ts], r.n)
    [] OTHER -> Fail(pos)

\* parse a complete byte string as exactly one term
Parse(b, ar) == LET r == Term(b, 0, Len(b), ar) IN [ok |-> r.ok /\ r.n = Len(b), t |-> r.t, n |-> r.n]
=============================================================================
