----------------------------- MODULE APA_Matrix -----------------------------
(***************************************************************************)
(* The index arithmetic behind the locality matrices, over plain integers, *)
(* typed for Apalache: for ALL shapes (1..65535 initiators x targets) the  *)
(* row-major index i * targets + j is in range, injective on (i, j) and    *)
(* inverted by (div, mod) -- which is what lets Sllbi_Lay / SlitMatrix lay *)
(* a last-writer map out cell by cell; and the SLIT cell (a, b) and its    *)
(* mirror (b, a) are two distinct in-range cells unless a = b.  MC_Tables  *)
(* and the C12 programs enumerate small shapes; here the shape is          *)
(* symbolic.  With StrideBug = TRUE the row stride is the number of        *)
(* initiators (the crate's defect repaired in 481b68d): refuted.           *)
(***************************************************************************)
EXTENDS Integers

CONSTANT
  \* @type: Bool;
  StrideBug

VARIABLES
  \* @type: Int;
  ni,
  \* @type: Int;
  nt,
  \* @type: Int;
  i,
  \* @type: Int;
  j,
  \* @type: Int;
  i2,
  \* @type: Int;
  j2

ConstOk == StrideBug = FALSE
ConstBug == StrideBug = TRUE
Init == /\ ni \in Nat /\ nt \in Nat /\ i \in Nat /\ j \in Nat /\ i2 \in Nat /\ j2 \in Nat
        /\ ni >= 1 /\ nt >= 1 /\ ni <= 65535 /\ nt <= 65535 /\ i < ni /\ j < nt /\ i2 < ni /\ j2 < nt
Next == UNCHANGED <<ni, nt, i, j, i2, j2>>
Stride == IF StrideBug THEN ni ELSE nt
Idx(a, b) == a * Stride + b
Inv == /\ Idx(i, j) >= 0 /\ Idx(i, j) < ni * nt                          \* in range
       /\ (Idx(i, j) = Idx(i2, j2) => (i = i2 /\ j = j2))                 \* one cell per pair
       /\ Idx(i, j) \div nt = i /\ Idx(i, j) % nt = j                     \* row-major projection is its inverse
       \* SLIT (square, ni localities): a cell and its mirror coincide exactly on the diagonal
       /\ (i2 < ni /\ j2 < ni /\ i < ni /\ j < ni /\ nt = ni) => ((i * ni + j = j * ni + i) <=> (i = j))
=============================================================================
