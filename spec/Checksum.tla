------------------------------ MODULE Checksum ------------------------------
(***************************************************************************)
(* The public checksum accumulator (`Checksum` in src/lib.rs) as a state   *)
(* machine.  acc is the 8-bit accumulator the implementation keeps; ref is *)
(* a ghost reference: the plain integer (sum of bytes added) - (sum of     *)
(* bytes removed), kept in a range much wider than 8 bits (modulo RefMod,  *)
(* a multiple of 256) so that the statement acc = ref mod 256 is about     *)
(* carries, not a restatement of the implementation.                       *)
(* One action per public entry point; the sink entry points are the five   *)
(* AmlSink methods, which the implementation funnels through byte().       *)
(***************************************************************************)
EXTENDS CkAlgebra

CONSTANT RefMod          \* multiple of 256
VARIABLES acc, ref
ckvars == <<acc, ref>>

Norm(x) == ((x % RefMod) + RefMod) % RefMod

CkInit == acc = 0 /\ ref = 0

\* single-byte operations
CkAdd(b) == acc' = AddNext(acc, b) /\ ref' = Norm(ref + b)
CkSub(b) == acc' = SubNext(acc, b) /\ ref' = Norm(ref - b)

\* slice operations: one wrapping step per byte, in order
CkAppend(s) == acc' = AppendNext(acc, s) /\ ref' = Norm(ref + PlainSum(s))
CkDelete(s) == acc' = DeleteNext(acc, s) /\ ref' = Norm(ref - PlainSum(s))

\* sink entry points: byte / word / dword / qword / vec all deliver bytes in order
CkSink(s) == CkAppend(s)

\* the reported checksum

---------------------------------------------------------------------------
\* properties (C17)
Faithful == acc = ref % 256
Complement == (acc + Value(acc)) % 256 = 0 /\ Value(acc) \in Byte
\* exact inverses, as action-level facts about the step functions
InverseByte == \A a \in Byte, b \in Byte : SubNext(AddNext(a, b), b) = a /\ AddNext(SubNext(a, b), b) = a
=============================================================================
