---------------------------- MODULE MC_AmlCorpus ----------------------------
(* Specification-level theorem for C06/C07/C10 over a corpus of term trees   *)
(* (IOEnv.CORPUS, ndjson of {tree, arities}): the independent parser of      *)
(* AmlDec.tla recovers Norm(tree) from the reference encoding Enc(tree) and  *)
(* consumes it exactly; every framed object carries a minimal self-inclusive *)
(* PkgLength; resource templates are tiled by their descriptors.  One TLC    *)
(* state per tree.  This checks the encoder and the parser of the            *)
(* specification against each other before either judges the crate.          *)
EXTENDS AmlEnc, AmlDec, TLC, Json, IOUtils

Corpus == ndJsonDeserialize(IOEnv.CORPUS)
VARIABLE i
Init == i = 1
Next == i < Len(Corpus) /\ i' = i + 1
Spec == Init /\ [][Next]_i

T == Corpus[i].tree
B == Enc(T)
InvRoundTrip == (~IsDesc(T) /\ ~("b" \in DOMAIN Corpus[i])) => LET p == Parse(B, ArityTable(Corpus[i].arities)) IN p.ok /\ p.t = Norm(T) /\ p.n = Len(B)
FramedOp == [Package |-> 1, PackageBuilder |-> 1, VarPackage |-> 1, BufferData |-> 1, BufferFill |-> 1, BufferTerm |-> 1, Uuid |-> 1,
             ResourceTemplate |-> 1, Device |-> 2, Scope |-> 1, ScopeRaw |-> 1, Method |-> 1, PowerResource |-> 2, Field |-> 2,
             If |-> 1, Else |-> 1, While |-> 1]
InvFraming == T.t \in DOMAIN FramedOp =>
                LET d == PkgDec(B, FramedOp[T.t]) IN d.ok /\ d.v = Len(B) - FramedOp[T.t] /\ d.k = InclK(Len(B) - FramedOp[T.t] - d.k)
InvTemplate == T.t = "ResourceTemplate" =>
                 LET d == PkgDec(B, 1) sz == IntDec(B, 1 + d.k) payload == From(B, sz.n) w == ResItems(payload, 0, <<>>) IN
                 sz.ok /\ Val(sz.v) = Len(payload) /\ w.ok /\ Len(w.items) = Len(T.ch) + 1
\* C15 on the specification: alternative construction paths have the same reference encoding
InvAlt == "b" \in DOMAIN Corpus[i] => Enc(Corpus[i].tree) = Enc(Corpus[i].b)
=============================================================================
