----------------------------- MODULE Trace_Sinks -----------------------------
(* Implementation -> specification for C14: the same object serialised into  *)
(* six sinks (and twice into the vector sink).  Only the concatenation of    *)
(* what each sink received matters and it must be the same everywhere; the   *)
(* checksum sink must hold the arithmetic byte sum; the raw in-memory form   *)
(* (where the structure has one) must equal the serialised form.             *)
EXTENDS Sink, AmlBase, TraceCommon

VARIABLE l
tvars == <<out, l>>
TInit == out = <<>> /\ l = 1
E == Rec[l]
I(what) == [l |-> l, run |-> E.run, what |-> what, obj |-> Get(E, "what", ""), kind |-> Get(E, "kind", ""),
            sig |-> "sinks/" \o what]

\* payload of a PackageBuilder that was used as a sink: PackageOp PkgLength NumElements(=0) payload
PbPayload(b) == LET d == PkgDec(b, 1) IN
                IF Len(b) >= 3 /\ b[1] = 18 /\ d.ok /\ d.v = Len(b) - 1 /\ b[1 + d.k + 1] = 0 THEN From(b, 1 + d.k + 1) ELSE <<"bad">>

TSinks ==
  /\ E.ev = "sinks"
  /\ IF E.panic THEN Judge("C14", FALSE, I("unexpected_panic")) /\ out' = <<>>
     ELSE /\ out' = Stream(E.calls)          \* the abstract stream: replay of the recorded sink calls (Sink.tla actions)
          /\ Judge("C14", \A i \in 1..Len(E.calls) : CallOk(E.calls[i]), I("malformed_sink_call"))
          /\ Judge("C14", Stream(E.calls) = E.vec, I("override_all_sink_vs_vector_sink"))
          /\ Judge("C14", E.byteonly = E.vec, I("byte_only_sink_vs_vector_sink"))
          /\ Judge("C14", E.again = E.vec, I("second_serialisation_differs"))
          /\ Judge("C14", E.ck_raw = Sum8(E.vec) /\ (E.ck_raw + E.ck_value) % 256 = 0, I("checksum_sink"))
          /\ Judge("C14", E.u8sum = Sum8(E.vec), I("u8sum_helper"))
          /\ Judge("C14", Has(E, "sdt") => (E.sdt_len = 36 + Len(E.vec) /\ Len(E.sdt) = E.sdt_len /\ From(E.sdt, 36) = E.vec
                                             /\ Sum8(E.sdt) = 0 /\ Slice(E.sdt, 4, 4) = LE(Len(E.sdt), 4)), I("generic_table_sink"))
          \* the same into a generic table that already holds data, the object straddling a 64 KiB boundary of its length
          /\ Judge("C14", Has(E, "sdt2_len") => (E.sdt2_len = 65536 - (Len(E.vec) \div 2) + Len(E.vec) /\ E.sdt2_tail = E.vec /\ E.sdt2_sum8 = 0
                                                  /\ Slice(E.sdt2_head, 4, 4) = LE(E.sdt2_len, 4)), I("generic_table_sink_across_64k"))
          /\ Judge("C14", PbPayload(E.pb) = E.vec, I("package_builder_sink"))
          /\ Judge("C14", Has(E, "raw") => E.raw = E.vec, I("raw_form_vs_serialised_form"))

TNext == l <= NRec /\ l' = l + 1 /\ TSinks
TSpec == TInit /\ [][TNext]_tvars
Done == DoneMsg(l)
=============================================================================
