SPECIFICATION Spec
INVARIANTS InvRoundTrip InvFraming InvTemplate InvAlt
CHECK_DEADLOCK FALSE
