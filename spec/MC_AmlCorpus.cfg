SPECIFICATION Spec
INVARIANTS InvRoundTrip InvFraming InvTemplate
CHECK_DEADLOCK FALSE
