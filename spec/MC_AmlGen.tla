------------------------------ MODULE MC_AmlGen ------------------------------
(***************************************************************************)
(* A bounded generator of AML term trees in TLA+ (specification -> impl):  *)
(* every constructor (and every operator variant) in every child position  *)
(* of every other constructor, depth 2 complete.  Each tree is one initial  *)
(* state; TLC checks on it that the independent parser recovers the normal  *)
(* form from the reference encoding (and the framing of length-prefixed     *)
(* objects), and prints it as a REPLAY program that the harness builds with *)
(* the crate's constructors.                                                *)
(***************************************************************************)
EXTENDS AmlEnc, AmlDec, TLC, Json

P1 == <<80, 65, 84, 72>>                    \* "PATH"
P2 == <<92, 95, 83, 66, 95, 46, 68, 69, 86, 48>>   \* "\_SB_.DEV0"
Leaf == <<[t |-> "Zero"], [t |-> "Int", ty |-> "u16", v |-> <<52, 18>>], [t |-> "Str", s |-> <<72, 105>>, owned |-> FALSE],
          [t |-> "Path", s |-> P1], [t |-> "Arg", n |-> 1], [t |-> "Local", n |-> 2], [t |-> "One"],
          [t |-> "Int", ty |-> "u64", v |-> <<1, 2, 3, 4, 5, 6, 7, 8>>]>>
L(i) == Leaf[((i - 1) % Len(Leaf)) + 1]

BinOps == <<"Add", "Concat", "Subtract", "Multiply", "ShiftLeft", "ShiftRight", "And", "Nand", "Or", "Nor", "Xor", "ConcatRes", "Mod",
            "Index", "ToString", "CreateDWordField", "CreateQWordField">>
CmpOps == <<"Equal", "LessThan", "GreaterThan", "NotEqual", "GreaterEqual", "LessEqual">>
UnOps == <<"ObjectType", "SizeOf", "Return", "DeRefOf">>
ConvOps == <<"ToBuffer", "ToInteger">>

\* kinds: [k, op, n] where n = number of child slots
Kinds ==
  <<[k |-> "Package", op |-> "", n |-> 2], [k |-> "PackageBuilder", op |-> "", n |-> 2], [k |-> "VarPackage", op |-> "", n |-> 1],
    [k |-> "BufferTerm", op |-> "", n |-> 1], [k |-> "Name", op |-> "", n |-> 1], [k |-> "Device", op |-> "", n |-> 2],
    [k |-> "Scope", op |-> "", n |-> 2], [k |-> "Method", op |-> "", n |-> 2], [k |-> "PowerResource", op |-> "", n |-> 2],
    [k |-> "OpRegion", op |-> "", n |-> 2], [k |-> "If", op |-> "", n |-> 2], [k |-> "Else", op |-> "", n |-> 2],
    [k |-> "While", op |-> "", n |-> 2], [k |-> "Store", op |-> "", n |-> 2], [k |-> "Notify", op |-> "", n |-> 2],
    [k |-> "CreateField", op |-> "", n |-> 3], [k |-> "Mid", op |-> "", n |-> 4], [k |-> "MethodCall", op |-> "", n |-> 2],
    [k |-> "BufferData", op |-> "", n |-> 0], [k |-> "Uuid", op |-> "", n |-> 0], [k |-> "ResourceTemplate", op |-> "", n |-> 0],
    [k |-> "Field", op |-> "", n |-> 0], [k |-> "Mutex", op |-> "", n |-> 0], [k |-> "Acquire", op |-> "", n |-> 0],
    [k |-> "Release", op |-> "", n |-> 0], [k |-> "Eisa", op |-> "", n |-> 0], [k |-> "Ones", op |-> "", n |-> 0],
    \* one more child per encoded-size class of the leaf kinds (a child may take 1, 2, 3, 5 or 9 bytes; a parent that
    \* computes its length instead of measuring it must get each right)
    [k |-> "EisaWord", op |-> "", n |-> 0], [k |-> "IntByte", op |-> "", n |-> 0], [k |-> "IntDWord", op |-> "", n |-> 0],
    [k |-> "StrEmpty", op |-> "", n |-> 0], [k |-> "PathRoot2", op |-> "", n |-> 0], [k |-> "Path3", op |-> "", n |-> 0],
    [k |-> "BufferEmpty", op |-> "", n |-> 0], [k |-> "PackageEmpty", op |-> "", n |-> 0], [k |-> "FieldWidths", op |-> "", n |-> 0]>> \o
  [i \in 1..Len(BinOps) |-> [k |-> "Bin", op |-> BinOps[i], n |-> 3]] \o
  [i \in 1..Len(CmpOps) |-> [k |-> "Cmp", op |-> CmpOps[i], n |-> 2]] \o
  [i \in 1..Len(UnOps) |-> [k |-> "Un", op |-> UnOps[i], n |-> 1]] \o
  [i \in 1..Len(ConvOps) |-> [k |-> "Conv", op |-> ConvOps[i], n |-> 2]]

UuidS == <<97, 97, 98, 98, 99, 99, 100, 100, 45, 101, 101, 102, 102, 45, 48, 49, 50, 51, 45, 52, 53, 54, 55, 45, 56, 57, 65, 66, 67, 68, 69, 70, 48, 49, 50, 51>>
Gas0 == [space |-> "SystemIo", width |-> <<8>>, offset |-> <<0>>, access |-> "ByteAccess", addr |-> <<1, 2, 3, 4, 5, 6, 7, 8>>]
\* build kind KD from children c (a sequence of at least K.n terms)
Mk(KD, c) ==
  CASE KD.k \in {"Package", "PackageBuilder"} -> [t |-> KD.k, ch |-> <<c[1], c[2]>>]
    [] KD.k = "VarPackage" -> [t |-> KD.k, v |-> c[1]]
    [] KD.k = "BufferTerm" -> [t |-> KD.k, v |-> c[1]]
    [] KD.k = "Name" -> [t |-> KD.k, path |-> P2, v |-> c[1]]
    [] KD.k \in {"Device", "Scope"} -> [t |-> KD.k, path |-> P2, ch |-> <<c[1], c[2]>>]
    [] KD.k = "Method" -> [t |-> KD.k, path |-> P1, args |-> 3, ser |-> TRUE, ch |-> <<c[1], c[2]>>]
    [] KD.k = "PowerResource" -> [t |-> KD.k, path |-> P1, level |-> <<3>>, order |-> <<1, 2>>, ch |-> <<c[1], c[2]>>]
    [] KD.k = "OpRegion" -> [t |-> KD.k, path |-> P1, space |-> "PCIConfig", off |-> c[1], len |-> c[2]]
    [] KD.k \in {"If", "While"} -> [t |-> KD.k, p |-> c[1], ch |-> <<c[2]>>]
    [] KD.k = "Else" -> [t |-> KD.k, ch |-> <<c[1], c[2]>>]
    [] KD.k = "Store" -> [t |-> KD.k, name |-> c[1], value |-> c[2]]
    [] KD.k = "Notify" -> [t |-> KD.k, obj |-> c[1], value |-> c[2]]
    [] KD.k = "CreateField" -> [t |-> KD.k, name |-> [t |-> "FieldName", s |-> <<70, 76, 68, 49>>], src |-> c[1], idx |-> c[2], nbits |-> c[3]]
    [] KD.k = "Mid" -> [t |-> KD.k, src |-> c[1], idx |-> c[2], len |-> c[3], res |-> c[4]]
    [] KD.k = "MethodCall" -> [t |-> KD.k, path |-> <<77, 48, 50, 65>>, args |-> <<c[1], c[2]>>]
    [] KD.k = "BufferData" -> [t |-> KD.k, d |-> <<1, 2, 3, 250>>]
    [] KD.k = "Uuid" -> [t |-> KD.k, s |-> UuidS]
    [] KD.k = "ResourceTemplate" -> [t |-> KD.k, ch |-> <<[t |-> "Memory32Fixed", rw |-> TRUE, base |-> <<0, 0, 0, 254>>, len |-> <<0, 16, 0, 0>>],
                                                     [t |-> "Register", reg |-> Gas0]>>]
    [] KD.k = "Field" -> [t |-> KD.k, path |-> P1, access |-> "DWord", lock |-> "Lock", update |-> "WriteAsOnes",
                         fields |-> <<[k |-> "named", name |-> <<70, 48, 48, 49>>, bits |-> 63], [k |-> "reserved", bits |-> 4096]>>]
    [] KD.k = "Mutex" -> [t |-> KD.k, path |-> P1, sync |-> <<7>>]
    [] KD.k = "Acquire" -> [t |-> KD.k, path |-> P1, timeout |-> <<255, 254>>]
    [] KD.k = "Release" -> [t |-> KD.k, path |-> P2]
    [] KD.k = "Eisa" -> [t |-> KD.k, s |-> <<80, 78, 80, 48, 65, 48, 56>>]
    [] KD.k = "Ones" -> [t |-> "Ones"]
    [] KD.k = "EisaWord" -> [t |-> "Eisa", s |-> <<80, 78, 80, 48, 48, 48, 48>>]          \* "PNP0000": the id compresses to a word
    [] KD.k = "IntByte" -> [t |-> "Int", ty |-> "u32", v |-> <<66, 0, 0, 0>>]
    [] KD.k = "IntDWord" -> [t |-> "Int", ty |-> "usize", v |-> <<1, 2, 3, 4, 0, 0, 0, 0>>]
    [] KD.k = "StrEmpty" -> [t |-> "Str", s |-> <<>>, owned |-> TRUE]
    [] KD.k = "PathRoot2" -> [t |-> "Path", s |-> <<92, 65, 66, 95, 95, 46, 67, 68, 95, 95>>]
    [] KD.k = "Path3" -> [t |-> "Path", s |-> <<65, 95, 95, 95, 46, 66, 95, 95, 95, 46, 67, 95, 95, 95>>]
    [] KD.k = "BufferEmpty" -> [t |-> "BufferData", d |-> <<>>]
    [] KD.k = "PackageEmpty" -> [t |-> "Package", ch |-> <<>>]
    [] KD.k = "FieldWidths" -> [t |-> "Field", path |-> P1, access |-> "Any", lock |-> "NoLock", update |-> "Preserve",
                               fields |-> <<[k |-> "named", name |-> <<70, 48, 48, 49>>, bits |-> 4095], [k |-> "reserved", bits |-> 63],
                                            [k |-> "named", name |-> <<70, 48, 48, 50>>, bits |-> 1048575]>>]
    [] KD.k = "Bin" -> [t |-> KD.k, op |-> KD.op, target |-> c[1], a |-> c[2], b |-> c[3]]
    [] KD.k = "Cmp" -> [t |-> KD.k, op |-> KD.op, l |-> c[1], r |-> c[2]]
    [] KD.k = "Un" -> [t |-> KD.k, op |-> KD.op, a |-> c[1]]
    [] KD.k = "Conv" -> [t |-> KD.k, op |-> KD.op, target |-> c[1], a |-> c[2]]

Leaves4(off) == <<L(off), L(off + 1), L(off + 2), L(off + 3)>>
\* parent P with child kind C in slot i, leaves elsewhere
Build(P, i, C) == Mk(P, [j \in 1..4 |-> IF j = i THEN Mk(C, Leaves4(j + 2)) ELSE L(j)])

VARIABLE tree
Init == \E pi \in 1..Len(Kinds), ci \in 1..Len(Kinds) : \E i \in 1..4 :
          /\ Kinds[pi].n >= i
          /\ tree = Build(Kinds[pi], i, Kinds[ci])
Next == UNCHANGED tree
Spec == Init /\ [][Next]_tree

Ar == {<<NameOf(<<77, 48, 50, 65>>), 2>>}
B == Enc(tree)
InvRoundTrip == LET p == Parse(B, Ar) IN p.ok /\ p.n = Len(B) /\ p.t = Norm(tree)
EmitInv == PrintT("REPLAY " \o ToJson([fam |-> "aml", tree |-> tree, arities |-> <<[path |-> <<77, 48, 50, 65>>, n |-> 2]>>]))
=============================================================================
