----------------------------- MODULE MC_Checksum -----------------------------
(* Bounded model of Checksum.tla: every accumulator state x every byte x    *)
(* {add, sub}, slices up to length MaxSlice over a small alphabet, sink     *)
(* chunks; a history variable (hidden by VIEW) is printed as REPLAY lines   *)
(* in simulation mode so that behaviours of the specification can be        *)
(* executed against the real accumulator.                                   *)
EXTENDS Checksum, TLC, Json

CONSTANTS SliceAlphabet, MaxSlice, EmitDepth
VARIABLE hist
vars == <<acc, ref, hist>>

Slices == UNION {[1..n -> SliceAlphabet] : n \in 0..MaxSlice}

Init == CkInit /\ hist = <<>>
H(op, arg) == hist' = IF Len(hist) < EmitDepth THEN Append(hist, [op |-> op, arg |-> arg]) ELSE hist

Next ==
  \/ \E b \in Byte : CkAdd(b) /\ H("add", <<b>>)
  \/ \E b \in Byte : CkSub(b) /\ H("sub", <<b>>)
  \/ \E s \in Slices : CkAppend(s) /\ H("append", s)
  \/ \E s \in Slices : CkDelete(s) /\ H("delete", s)
  \/ \E s \in Slices : Len(s) \in {1, 2} /\ CkSink(s) /\ H(IF Len(s) = 1 THEN "sink_byte" ELSE "sink_word", s)
  \/ \E s \in Slices : CkSink(s) /\ H("sink_vec", s)

Spec == Init /\ [][Next]_vars
View == <<acc, ref>>

InvFaithful == Faithful
InvComplement == Complement
ASSUME InverseByteHolds == InverseByte
\* Append then Delete of the same slice restores the state (checked as a state predicate over all slices)
InvSliceInverse == \A s \in Slices : DeleteNext(AppendNext(acc, s), s) = acc /\ AppendNext(DeleteNext(acc, s), s) = acc
\* slice = repeated single-byte op
InvSliceIsBytes == \A s \in Slices : Len(s) = 2 => AppendNext(acc, s) = AddNext(AddNext(acc, s[1]), s[2])

\* simulation-mode emitter: one REPLAY line per behaviour of length EmitDepth
Emit == Len(hist) = EmitDepth => PrintT("REPLAY " \o ToJson([fam |-> "checksum", ops |-> hist]))
EmitInv == Emit
=============================================================================
