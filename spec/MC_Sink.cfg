SPECIFICATION Spec
CONSTANTS
  Alphabet = {0, 255}
  MaxLen = 9
INVARIANTS InvStream InvPrefix InvDone
CHECK_DEADLOCK FALSE
