SPECIFICATION Spec
INVARIANTS InvRoundTrip EmitInv
CHECK_DEADLOCK FALSE
